"""Per-property check configuration (harnesses, bounds, claims)."""

MIGRATE = dict(pkg="ariga.io/atlas/sql/migrate", hdir="migrate")

PROPS = {
    "C12": dict(
        MIGRATE,
        runs={
            "quick": [
                dict(harness="VerifHarness_C12_quick", reach=["resume", "refuse"]),
                dict(harness="VerifHarness_C12_rerun", reach=["rerun"]),
                dict(harness="VerifHarness_C12_twice", reach=["resume", "refuse"]),
                dict(harness="VerifHarness_C12_pending", reach=["resume", "refuse"]),
                dict(harness="VerifHarness_C12_sums", reach=["resume", "refuse", "rerun"]),
            ],
            "thorough": [
                dict(harness="VerifHarness_C12_thorough", reach=["resume", "refuse", "rerun"]),
                dict(harness="VerifHarness_C12_twice4", reach=["resume", "refuse"]),
                dict(harness="VerifHarness_C12_pending", reach=["resume", "refuse"]),
                dict(harness="VerifHarness_C12_sums", reach=["resume", "refuse", "rerun"]),
            ],
        },
        bounds={
            "quick": "old file 2..3 statements, edited file 0..3 statements, every partial progress k, statement texts 1 fully symbolic byte each; third attempt in the rerun variant; "
                     "entry-point family: the same through ExecuteN -> Pending -> Execute on a directory with a later file; twice-partial family: 2..3 statements, first stop k1, tail edited, second stop k2 >= k1 in the resumed run, then a fully symbolic third file of 0..3 statements",
            "thorough": "old file 2..5 statements, edited file 0..5 statements, every partial progress k, statement texts 2 fully symbolic bytes each, third attempt included; twice-partial family with 2..4 statements of 2 bytes; "
                        "assertion queries cross-checked on z3 5.1 and cvc5",
        },
        assumptions=[
            "SHA-256 is collision free (digest = opaque token of its pre-image)",
            "File.StmtDecls of the model file returns the statements directly (scanner is C08)",
            "revision table keeps copies of written revisions (like a database table)",
            "Dir.Checksum of the model directory returns a constant hash for the file (integrity is C06)",
        ],
        outside="files longer than the bound; CLI layer; real database errors",
        claim="For every old file, every partial progress k and every edited file within the bounds, Executor.Execute (the real SSA, "
              "executed symbolically with fully symbolic statement bytes and hash tokens) refuses with HistoryChangedError, executes "
              "nothing and leaves the revision untouched iff the applied prefix changed, otherwise resumes with exactly the new tail, "
              "and later attempts neither crash nor re-execute; the same holds when the applied prefix was recorded by two partial runs (the hashes "
              "written by a resumed run are the ones compared). Bounded model checking is the right level: the property quantifies over "
              "file contents and edit positions, which become solver variables and structural forks.",
        technique='bounded symbolic execution of the real Executor.Execute from go/ssa with fully symbolic statement bytes and hash tokens; branches and assertions decided by z3 (thorough: every unsat re-checked on z3 5.1 and cvc5); counterexamples replayed natively',
        note="Bounded (see evidence.bounds). Trusted: go/ssa lowering, the engine's instruction semantics, z3 (thorough: every unsat "
             "answer re-checked on z3 5.1 and cvc5), SHA-256 modelled as an injective opaque token, the model Dir/File/Driver/revision "
             "table of harness/migrate/zz_verif_model.go. The decision 'file is pending again while Applied != Total' is copied from "
             "Executor.Pending in the harness (directory validation is C06).",
    ),
}

PROPS["C08"] = dict(
    MIGRATE,
    runs={
        "quick": [
            dict(harness="VerifHarness_C08_free3", reach=["ok", "error", "stmt"], flags=["-domain"]),
            dict(harness="VerifHarness_C08_hdr2", reach=["ok", "stmt"]),
            dict(harness="VerifHarness_C08_pre1", reach=["ok", "error", "stmt"]),
            dict(harness="VerifHarness_C08_suf1", reach=["ok", "stmt"]),
            dict(harness="VerifHarness_C08_symopts1", reach=["ok", "stmt"]),
            dict(module="cmd/atlas", pkg="ariga.io/atlas/cmd/atlas/internal/migratelint", hdir="migratelint", harness="VerifHarness_C08_lines3", reach=["scanned"]),
        ],
        "thorough": [
            dict(harness="VerifHarness_C08_free3", reach=["ok", "error", "stmt"]),
            dict(harness="VerifHarness_C08_free4", reach=["ok", "error", "stmt"], flags=["-domain"], cross=False),
            dict(harness="VerifHarness_C08_free4my", reach=["ok", "error", "stmt"], flags=["-domain"], cross=False),
            dict(harness="VerifHarness_C08_free4pg", reach=["ok", "error", "stmt"], flags=["-domain"], cross=False),
            dict(harness="VerifHarness_C08_free4ts", reach=["ok", "error", "stmt"], flags=["-domain"], cross=False),
            dict(harness="VerifHarness_C08_hdr3", reach=["ok", "stmt"]),
            dict(harness="VerifHarness_C08_pre2", reach=["ok", "error", "stmt"], flags=["-domain"], cross=False),
            dict(harness="VerifHarness_C08_suf2", reach=["ok", "stmt"], flags=["-domain"], cross=False),
            dict(harness="VerifHarness_C08_symopts2", reach=["ok", "stmt"], flags=["-domain"], cross=False),
            dict(module="cmd/atlas", pkg="ariga.io/atlas/cmd/atlas/internal/migratelint", hdir="migratelint", harness="VerifHarness_C08_lines4", reach=["scanned"]),
        ],
    },
    bounds={
        "quick": "all inputs of 3 fully symbolic bytes (0..255) x the 5 driver option sets; atlas:delimiter header + 2 free bytes; "
                 "18 feature prefixes (DELIMITER, BEGIN, $$, GO, comments, quotes...) + 1 free byte x 5 option sets; BEGIN + 1 free byte + 6 closers; "
                 "all 2^10 option sets (symbolic booleans) on 1 free byte; line mapping of the lint report: a CRLF file with 3 symbolic bytes over {CR, LF, ;, a, blank, -}",
        "thorough": "all inputs of 4 fully symbolic bytes for the default/MySQL/PostgreSQL/T-SQL option sets, 3 bytes for all five; header + 3; "
                    "prefixes + 2 free bytes; BEGIN + 2 free bytes + closers; symbolic option set on 2 free bytes",
    },
    assumptions=[
        "runs flagged -domain decide branches over a single byte variable by exact enumeration of that byte's 256 values before asking z3 "
        "(a sound pre-solver simplification); all other branches and all assertions are z3 queries",
        "FileReport.Line(pos) = 1 + count of newlines in Text[:pos] (cmd/atlas/internal/migratelint/lint_oss.go): line accuracy follows from "
        "position accuracy, which is what is asserted",
    ],
    outside="inputs with more free bytes than the bound; interactions needing more free bytes after a prefix",
    claim="For every input within the bounds (every byte value at every position, five driver option sets and all 1024 option combinations), "
          "the real Scanner.Scan terminates without panic and either errors or returns statements whose text is exactly input[Pos:Pos+len], "
          "in increasing non-overlapping order, with everything dropped in between classified as blank/comment/delimiter/delimiter command by an "
          "independent classifier. Inputs are fully symbolic bytes, so each explored path is a class of inputs decided by the solver.",
    technique='bounded symbolic execution of the real statement scanner from go/ssa over fully symbolic input bytes (and symbolic option booleans); every scanner branch is a z3 query, assertions (text at position, ordering, gap classification) decided by z3; counterexamples replayed natively',
    note="Bounded by input length (see evidence.bounds). The gap classifier in harness/migrate/zz_verif_c08.go is the oracle for 'nothing is "
         "silently dropped' and is trusted; regexp matching on symbolic bytes is the engine's backtracking matcher over regexp/syntax programs.",
)

PROPS["C09"] = dict(
    MIGRATE,
    runs={
        "quick": [dict(harness="VerifHarness_C09_quick", reach=["clean-run", "stmt-fault", "write-fault", "two-write-faults"]),
                  dict(harness="VerifHarness_C09_ckpt", reach=["clean-run", "stmt-fault", "write-fault", "checkpoint"])],
        "thorough": [dict(harness="VerifHarness_C09_thorough", reach=["clean-run", "stmt-fault", "write-fault", "two-write-faults"]),
                     dict(harness="VerifHarness_C09_ckpt", reach=["clean-run", "stmt-fault", "write-fault", "checkpoint"])],
    },
    bounds={
        "quick": "1..2 files x 1..3 statements; two faulty ExecuteN runs then a clean one; in each faulty run the index of the failing store "
                 "operation (statement execution or revision write, or none) is a symbolic integer; checkpoint family: 1..3 files x 1..2 statements, any one "
                 "file (or none) a checkpoint, one faulty run then a clean one",
        "thorough": "1..3 files x 1..3 statements; two faulty runs (symbolic failing operation index each) then a clean run; unsat answers cross-checked",
    },
    assumptions=[
        "a failing ExecContext has no effect; a failing WriteRevision stores nothing; the revision table stores copies",
        "real migrate.MemDir with a sum file written by WriteSumFile; SHA-256 = injective opaque token",
        "statement texts are concrete (the scanner is C08); the fault position is the symbolic input",
    ],
    outside="more than two faults; partially applied statements inside the database; logger side effects; shapes beyond the bound",
    claim="For every directory shape and every pair of fault positions within the bounds (fault position = solver variable), the real "
          "Executor.ExecuteN/Pending/Execute never record more than was executed, run statements in version/file order without skipping, repeat a "
          "statement only when its own bookkeeping write failed (once per such failure), execute every statement exactly once when only statements "
          "fail, and the final clean run completes the directory.",
    technique='bounded symbolic execution of the real Executor from go/ssa against a model store whose failing operation index is a z3 integer; branches and assertions decided by z3; counterexamples replayed natively',
    note="Bounded. Trusted: engine semantics, z3, the recording driver / copying revision table models (harness/migrate/zz_verif_model.go).",
)

_c11_reach = ["pending", "no-pending", "non-linear", "dirty"]
PROPS["C11"] = dict(
    MIGRATE,
    runs={
        "quick": [
            dict(harness="VerifHarness_C11_quick", reach=_c11_reach),
            dict(harness="VerifHarness_C11_count3", reach=_c11_reach),
            dict(harness="VerifHarness_C11_sym3", reach=_c11_reach),
            dict(pkg="ariga.io/atlas/sql/sqlite", hdir="sqlite", harness="VerifHarness_C14_gate", reach=["dirty", "clean", "refused"]),
        ],
        "thorough": [
            dict(harness="VerifHarness_C11_thorough", reach=_c11_reach),
            dict(harness="VerifHarness_C11_count4", reach=_c11_reach),
            dict(harness="VerifHarness_C11_sym4", reach=_c11_reach),
            dict(pkg="ariga.io/atlas/sql/sqlite", hdir="sqlite", harness="VerifHarness_C14_gate", reach=["dirty", "clean", "refused"]),
        ],
    },
    bounds={
        "quick": "directories of 1..4 versions, any subset marked checkpoint, any subset with a revision, last revision complete or partial, "
                 "3 execution orders, first run x {clean, dirty} x {plain, allow-dirty, baseline at any version}; apply-with-count 0..n+1 on <=3 versions; "
                 "symbolic one-byte version strings (ordering decided by the solver) on <=3 versions; the SQLite driver's clean-database gate "
                 "(CheckClean) on 0..2 tables with symbolic names",
        "thorough": "same with 1..5 versions (count: 4, symbolic versions: 4); unsat answers cross-checked",
    },
    assumptions=[
        "reachable histories only: revisions sorted by version and belonging to directory files, only the last revision may be partial, "
        "a revision of a checkpoint file is the first revision; baseline and allow-dirty mutually exclusive (NewExecutor rejects both)",
        "model directory holds pre-scanned one-statement files and a sum file produced by the real NewHashFile/MarshalText (so the real "
        "Validate runs); SHA-256 = injective opaque token",
        "presence bits (checkpoint?, revision?) are structural and explored by forking; version bytes are solver variables in the sym runs",
    ],
    outside="status / set-version CLI commands and their reports (cmdapi, cmdlog); revisions for versions missing from the directory; "
            "directories of more than 5 versions",
    claim="For every directory, history and option combination within the bounds, the real Executor.Pending (and ExecuteN on an identical "
          "store) returns exactly the documented pending list or error: compared against an independent reference of the documented semantics "
          "plus reference-free invariants (no fully applied version pending, duplicate-free, partial file first).",
    technique='bounded symbolic execution of the real Executor.Pending / checkpoint helpers from go/ssa: version strings are symbolic byte runs, histories by forks, compared with an independent reference; branches and assertions decided by z3; counterexamples replayed natively',
    note="Bounded; structural enumeration by path forking with solver-decided version ordering. Trusted: the reference semantics in "
         "harness/migrate/zz_verif_c11.go, engine, z3, environment models.",
)

PROPS["C06"] = dict(
    MIGRATE,
    runs={
        "quick": [
            dict(harness="VerifHarness_C06_quick", reach=["validates", "rejected"]),
            dict(harness="VerifHarness_C06_ignore", reach=["validates", "rejected"]),
            dict(harness="VerifHarness_C06_lens2", reach=["validates", "rejected"]),
            dict(harness="VerifHarness_C06_shift", reach=["validates", "rejected"]),
            dict(harness="VerifHarness_C06_names3", reach=["validates"]),
            dict(harness="VerifHarness_C06_writers", reach=["validates", "rejected"]),
            dict(harness="VerifHarness_C06_ignore_witness", role="witness", key="C06-ignored-files"),
        ],
        "thorough": [
            dict(harness="VerifHarness_C06_thorough", reach=["validates", "rejected"]),
            dict(harness="VerifHarness_C06_ignore3", reach=["validates", "rejected"]),
            dict(harness="VerifHarness_C06_lens2", reach=["validates", "rejected"]),
            dict(harness="VerifHarness_C06_shift", reach=["validates", "rejected"]),
            dict(harness="VerifHarness_C06_names4", reach=["validates"]),
            dict(harness="VerifHarness_C06_writers", reach=["validates", "rejected"]),
            dict(harness="VerifHarness_C06_ignore_witness", role="witness", key="C06-ignored-files"),
        ],
    },
    bounds={
        "quick": "original directory D: 0..3 files named b/d/f.sql with 4 fully symbolic content bytes each; validated directory D': 0..3 files with "
                 "symbolic one-letter names (sorted, distinct) and 4 symbolic content bytes each; sum-ignore family: 0..2 files, each optionally "
                 "starting with the concrete '-- atlas:sum ignore' line followed by 1 symbolic byte; boundary-shift family: 3 files in both "
                 "directories, the first two with symbolic contents of length 0, 1, 5 or 6 chosen independently (so a content can spell a file name "
                 "and the name/content boundaries of the hashed byte stream can move), the third of 1 byte; names family: an untouched two-file directory whose "
                 "first file name is 1..3 fully symbolic bytes (no line break, path separator or NUL) before .sql; writers family: 0..2 existing files, then "
                 "one or two writes by the real Planner (WritePlan / WriteCheckpoint in 5 orders, symbolic statement bytes), validation after each, "
                 "then one symbolic byte edit of any file",
        "thorough": "0..4 files x 6 symbolic content bytes (the longest content that cannot itself spell an atlas: directive); sum-ignore family "
                    "0..3 files x 2 bytes; unsat answers cross-checked",
    },
    assumptions=[
        "SHA-256 is an injective opaque token of its pre-image, base64 of a token is an opaque token string (Dolev-Yao); a token never equals attacker-chosen bytes",
        "real MemDir, NewHashFile, WriteSumFile, HashFile.{Sum,MarshalText,UnmarshalText,SumByName}, Validate, readHashFile are executed; bufio/bytes from source",
        "two arbitrary directories subsume single and compound edits (add anywhere, remove, rename, edit any byte, swap)",
    ],
    outside="SHA-256 collisions; LocalDir / OS file system; tar archives; edits of the atlas.sum text itself; the CLI commands "
            "hash/import/new/set (file-system bound); contents of 7+ bytes that spell their own directive",
    claim="For every pair of directories within the bounds (all content bytes and the edited directory's names are solver variables), the real "
          "Validate succeeds iff the directory is unchanged, reports tampering as ChecksumError/ErrChecksumMismatch, and an untouched directory "
          "validates - whatever its files are called, and after every write the Planner makes. With files carrying the documented 'atlas:sum ignore' directive the exact detected region (hashed view) is asserted instead "
          "and the undetected remainder is the listed known finding.",
    technique='bounded symbolic execution of the real hash-file code (NewHashFile, Validate, MarshalText/UnmarshalText) from go/ssa with all content bytes and edited names as z3 variables and SHA-256 as an injective uninterpreted token (Dolev-Yao); branches and assertions decided by z3; counterexamples replayed natively with the real SHA-256',
    note="Bounded. Hash abstraction as above (collision freedom is an assumption, not checked). Trusted: engine (incl. its regexp matcher, "
         "pruned by minimal match length), z3, oracle functions verifSameDir / verifHashedViewEq.",
)

SCHEMA = dict(pkg="ariga.io/atlas/sql/schema", hdir="schema")
PROPS["C19"] = dict(
    SCHEMA,
    runs={
        "quick": [
            dict(harness="VerifHarness_C19_p1", reach=["ok", "error", "excluded"]),
            dict(harness="VerifHarness_C19_p1g2", reach=["ok", "error", "excluded"]),
            dict(harness="VerifHarness_C19_schema1", reach=["ok", "error", "excluded"]),
            dict(module="cmd/atlas", pkg="ariga.io/atlas/cmd/atlas/internal/cmdapi", hdir="cmdapi", harness="VerifHarness_C19_policy", reach=["policy"]),
            dict(harness="VerifHarness_C19_p2", reach=["ok", "error", "excluded"]),
            dict(harness="VerifHarness_C19_p1c3", reach=["ok", "error", "excluded"]),
            dict(harness="VerifHarness_C19_schemac3", reach=["ok", "error", "excluded"]),
            dict(pkg="ariga.io/atlas/sql/sqlite", hdir="sqlite", harness="VerifHarness_C02_sqlite_skip", reach=["changes", "no-change"]),
        ],
        "thorough": [
            dict(pkg="ariga.io/atlas/sql/sqlite", hdir="sqlite", harness="VerifHarness_C02_sqlite_skip", reach=["changes", "no-change"]),
            dict(pkg="ariga.io/atlas/sql/mysql", hdir="mysql", harness="VerifHarness_C02_mysql_skip", reach=["changes", "no-change"]),
            dict(pkg="ariga.io/atlas/sql/postgres", hdir="postgres", harness="VerifHarness_C02_postgres_skip", reach=["changes", "no-change"]),
            dict(harness="VerifHarness_C19_p1", reach=["ok", "error", "excluded"]),
            dict(harness="VerifHarness_C19_p1g3", reach=["ok", "error", "excluded"]),
            dict(harness="VerifHarness_C19_schema2", reach=["ok", "error", "excluded"]),
            dict(harness="VerifHarness_C19_p1c4", reach=["ok", "error", "excluded"]),
            dict(harness="VerifHarness_C19_schemac3", reach=["ok", "error", "excluded"]),
            dict(module="cmd/atlas", pkg="ariga.io/atlas/cmd/atlas/internal/cmdapi", hdir="cmdapi", harness="VerifHarness_C19_policy", reach=["policy"]),
            dict(harness="VerifHarness_C19_p1sym", reach=["ok", "excluded"], cross=False),
            dict(harness="VerifHarness_C19_p2", reach=["ok", "error", "excluded"], cross=False),
        ],
    },
    bounds={
        "quick": "skip policy: 2^8 subsets of {drop column, drop index, drop fk, modify column, add index, drop pk, modify index, add column} x "
                 "2^8 templates (SQLite; thorough: all three dialects); exclusion: realm of 2 schemas x 2 tables x (2 columns, 1 index, 1 foreign key, 1 named check); one pattern of 1..3 parts whose globs are "
                 "1 symbolic byte each over {a,b,c,*,?,[,],-,^,\\} with any of 13 [type=...] selectors; one pattern whose last glob has 2 symbolic "
                 "bytes; two patterns (last glob symbolic, earlier parts in {*,a}, 4 selectors); schema-scoped entry point ExcludeSchema on either schema "
                 "(table names coincide with schema names) with one pattern of 1..2 symbolic parts and 4 selectors; project policy: project-level and env-level "
                 "skip blocks with 5 symbolic booleans each x 5 shapes of the env's diff block (absent, empty, driver-specific only, own skip, both)",
        "thorough": "same plus a 3-byte last glob, and symbolic one-letter resource names for schemas, tables and one table's columns",
    },
    assumptions=[
        "path/filepath.Match (interpreted from source on symbolic bytes) is the glob oracle of the reference; encoding/csv splitting is interpreted from source",
        "indexes / foreign keys built on an excluded column are 'don't care' (removed only when the selector also admits their kind)",
        "selectors are attached to the last pattern part only",
    ],
    outside="views/functions/procedures/triggers and realm objects, patterns with more than the bounded glob length, "
            "schema apply --exclude end to end, parsing of the project file itself (the Diff structures are built directly)",
    claim="For every pattern (glob bytes are solver variables) within the bounds, the real ExcludeRealm either rejects the pattern with an "
          "error or returns a realm in which exactly the resources addressed by some pattern (path parts match, selector admits the kind, "
          "children go with an excluded parent) are absent and all others are still present, compared with a declarative reference; "
          "ExcludeSchema behaves as ExcludeRealm with the pattern qualified by the literal schema name and never touches another schema; the "
          "skip policy handed to the differ is the env's own skip block if it has one and the project's otherwise (Diff.Extend / Options / Skipped). "
          "Skip policy: for every subset of 8 skippable change kinds and every present/absent combination of column/index/pk/fk on both sides "
          "(attributes differing so that both-present is a modify), TableDiff reports no change of a disabled kind and still every other edit.",
    technique='bounded symbolic execution of the real ExcludeRealm / ExcludeSchema (path/filepath.Match and encoding/csv from source) with glob bytes as z3 variables, and of TableDiff under every skip policy; branches and assertions decided by z3; counterexamples replayed natively',
    note="Bounded. Trusted: the references verifExcluded / verifExpected, engine, z3. The skip-policy runs are exhaustive structural enumeration.",
)

PROPS["C18"] = dict(
    pkg="ariga.io/atlas/sql/sqlcheck/destructive", hdir="destructive",
    runs={
        "quick": [
            dict(harness="VerifHarness_C18_quick", reach=["destructive", "additive"]),
            dict(pkg="ariga.io/atlas/sql/sqlite/sqlitecheck", hdir="sqlitecheck", harness="VerifHarness_C18_rebuild2", reach=["destructive", "additive"]),
            dict(module="cmd/atlas", pkg="ariga.io/atlas/cmd/atlas/internal/migratelint", hdir="migratelint", harness="VerifHarness_C18_lint", reach=["destructive", "additive"]),
            dict(module="cmd/atlas", pkg="ariga.io/atlas/cmd/atlas/internal/migratelint", hdir="migratelint", harness="VerifHarness_C18_window", reach=["destructive", "additive"]),
            dict(harness="VerifHarness_C18_witness", role="witness", key="C18-order-insensitive-spans"),
        ],
        "thorough": [
            dict(harness="VerifHarness_C18_thorough", reach=["destructive", "additive"]),
            dict(pkg="ariga.io/atlas/sql/sqlite/sqlitecheck", hdir="sqlitecheck", harness="VerifHarness_C18_rebuild3", reach=["destructive", "additive"]),
            dict(module="cmd/atlas", pkg="ariga.io/atlas/cmd/atlas/internal/migratelint", hdir="migratelint", harness="VerifHarness_C18_lint", reach=["destructive", "additive"]),
            dict(module="cmd/atlas", pkg="ariga.io/atlas/cmd/atlas/internal/migratelint", hdir="migratelint", harness="VerifHarness_C18_window", reach=["destructive", "additive"]),
            dict(harness="VerifHarness_C18_witness", role="witness", key="C18-order-insensitive-spans"),
        ],
    },
    bounds={
        "quick": "files of 1..3 statements over two tables (t0 with columns c0,c1; t1), each statement one of CREATE/DROP TABLE t0|t1, "
                 "ALTER t0 ADD/DROP COLUMN c0|c1 (dropped column virtual or not), ALTER t0 ADD INDEX; every combination of what exists before the file; "
                 "SQLite rebuild recognition: files of 1..2 units, each a 4-statement table rebuild (keeping all columns / losing one / rename seen as "
                 "drop+add), a plain DROP TABLE or a CREATE TABLE, through the whole SQLite analyzer chain; derivation: DevLoader.LoadChanges on a modelled dev "
                 "database for a new file of 1..13 statements (0, 1, 9, 10 or 11 additive statements, then a drop of a pre-existing table, optionally "
                 "re-created) on top of one base file, followed by the destructive analyzer",
        "thorough": "same with files of 1..5 statements and 1..3 rebuild units",
    },
    assumptions=[
        "changes are given per statement as schema.Change lists (how they are derived from SQL on a dev database is outside the claim)",
        "only valid sequences (no CREATE of an existing table, no DROP of a missing one...) are explored",
        "inputs are structural: explored exhaustively by path forking (the solver has no data constraints here)",
    ],
    outside="a real dev database (the dev database is a named-table model under the real SQLite driver, differ and DevLoader), sqliteparse, "
            "--latest N windowing, CLI exit status, schema drops (DS101)",
    claim="For every file within the bounds the real destructive.Analyzer (with sqlcheck.File span tracking) reports DS102/DS103 at the position of "
          "exactly the statements that drop a table / non-virtual column not created earlier in the same file, and fails iff there is one; "
          "exhaustive over the bounded statement sequences; with the SQLite analyzer chain a table rebuild is reported iff it loses a column, at the "
          "position of its first statement, and statements next to a rebuild are still analysed. The listed known finding is exactly the set of drop statements for which the "
          "whole-file (order-insensitive) span verdict differs from the position-aware one; all other statements, also of the same file, are "
          "checked exactly.",
    technique="bounded exploration of the real destructive analyzer, span tracking and SQLite analyzer chain from go/ssa over every statement sequence of the bound; inputs are structural, so the engine's choice points enumerate them exhaustively and z3 decides the data-dependent branches that arise; counterexamples replayed natively",
    note="Structural enumeration (exhaustive: true) executed on the real SSA; reference = ordered replay in the harness.",
)

_my = dict(pkg="ariga.io/atlas/sql/mysql", hdir="mysql")
_pg = dict(pkg="ariga.io/atlas/sql/postgres", hdir="postgres")
_lt = dict(pkg="ariga.io/atlas/sql/sqlite", hdir="sqlite")
_hcl = dict(initallow=["ariga.io/atlas/schemahcl", "github.com/zclconf/go-cty/cty", "github.com/go-openapi/inflect"])
_hclfull = dict(initallow=["database/sql", "math/big", "ariga.io/atlas/schemahcl/...", "github.com/zclconf/go-cty/...", "github.com/go-openapi/inflect",
                           "github.com/hashicorp/hcl/v2/...", "github.com/apparentlymart/go-textseg/...", "github.com/agext/levenshtein",
                           "github.com/mitchellh/go-wordwrap"])
_c15_doc = [dict(c, **_hclfull, harness="VerifHarness_C15_%s_doc_%s" % (d, fam), reach=["evaluated"])
            for d, c in (("mysql", _my), ("postgres", _pg), ("sqlite", _lt)) for fam in ("types", "strings", "objects")] + [
    dict(_my, **_hclfull, harness="VerifHarness_C15_mysql_doc_witness", role="witness", key="C15-mysql-check-not-enforced")]
_c15_hcl = [
    dict(_my, **_hcl, harness="VerifHarness_C15_mysql_hcl", reach=["roundtrip"]),
    dict(_pg, **_hcl, harness="VerifHarness_C15_postgres_hcl", reach=["roundtrip", "sql-fallback"]),
    dict(_lt, **_hcl, harness="VerifHarness_C15_sqlite_hcl", reach=["roundtrip"]),
]
PROPS["C15"] = dict(
    _my,
    runs={
        "quick": _c15_doc + _c15_hcl + [
            dict(_my, harness="VerifHarness_C15_mysql", reach=["formatted", "format-error"]),
            dict(_my, harness="VerifHarness_C15_mysql_witness", role="witness", key="C15-mysql-enum-quoting"),
            dict(_pg, harness="VerifHarness_C15_postgres", reach=["formatted", "format-error"]),
            dict(_lt, harness="VerifHarness_C15_sqlite", reach=["formatted"]),
        ],
        "thorough": _c15_doc + _c15_hcl + [
            dict(_my, harness="VerifHarness_C15_mysql2", reach=["formatted", "format-error"], cross=False),
            dict(_my, harness="VerifHarness_C15_mysql_witness", role="witness", key="C15-mysql-enum-quoting"),
            dict(_pg, harness="VerifHarness_C15_postgres", reach=["formatted", "format-error"]),
            dict(_lt, harness="VerifHarness_C15_sqlite", reach=["formatted"]),
        ],
    },
    bounds={
        "quick": "MySQL: every type family of FormatType's switch, sizes/precision/scale/display width as symbolic integers in 0..12 (float precision "
                 "0..30, time precision 0..7), unsigned / has-size / has-precision as symbolic booleans, enum and set with 1..2 values of 1 fully "
                 "symbolic byte; PostgreSQL: 20 families incl. 9 array spellings, same integer ranges (float precision 0..60); SQLite: 35 type names x "
                 "{no args, (n), (p,s)} x {lower, upper case}. HCL half (typed-spec level): the same catalogues (PostgreSQL intervals with a "
                 "precision only on fields that include seconds, MySQL VARBINARY always sized, enum/set values ASCII), each type taken as inspection "
                 "yields it (ParseType of its formatted text). Document level: per dialect three families of two-table schemas - types (column of every "
                 "catalogue type x nullability), strings (9 strings incl. quotes, backslash, ${ }, %{ }, newline, empty as default / column comment / "
                 "table comment; raw-expression and numeric defaults; auto_increment, charset/collation, ON UPDATE, generated column, WITHOUT ROWID where "
                 "the dialect has them), objects (index unique / desc / prefix / expression part / predicate / type / comment; foreign key with 5 "
                 "actions; named check with 3 expressions; and all of them together)",
        "thorough": "same with 2-byte enum/set values",
    },
    assumptions=[
        "symbolic integers that reach fmt %d are case-split into their concrete values (so those parameters are enumerated inside each solver-decided class)",
        "HCL half: real columnTypeSpec -> TypeRegistry.Convert -> hclType (marshal side) and real type variable / typeFuncSpec(...).Call (cty function "
        "with parameter checking) -> convertColumnType -> TypeRegistry.Type -> PrintType -> ParseType (eval side), reached through the export shim "
        "harness/x_schemahcl/zz_verif_export.go overlaid into package schemahcl; the lexical layer between them (hclwrite tokens, hclsyntax parser, "
        "gohcl decoding of the column block, where extra attributes such as unsigned travel as sibling attributes) is replaced by a 60-line "
        "name(args) splitter in the harness",
        "cty, gocty, go-openapi/inflect and math/big are executed from source on concrete parameters; cty.NormalizeString (Unicode NFC) is the identity on ASCII",
        "document level: real MarshalHCL (schemahcl encode, hclwrite) -> bytes -> real EvalHCLBytes (hclparse/hclsyntax, schemahcl evaluator, specutil, "
        "dialect converters) -> real DefaultDiff.SchemaDiff in both directions, then MarshalHCL again; the schemas are built as inspection builds them "
        "(Raw type text, quoted default literals); symbolic integers are case-split where they enter big.Float / fmt",
        "MySQL: the table-level AUTO_INCREMENT counter value is run-time state that MarshalHCL does not export by design (diff.autoIncChange) and is not generated",
    ],
    outside="schemas beyond the three families (no cross products of families, one or two tables, fixed identifiers: identifier bytes are not "
            "symbolic because the HCL lexer would fork on every byte), views/triggers/functions and other non-OSS objects, partitions; user-defined / "
            "composite / domain / enum-reference types that need a live database; parameter values beyond the ranges; non-ASCII enum values",
    claim="For every type of each dialect's catalogue within the parameter ranges, FormatType(ParseType(FormatType(t))) == FormatType(t), the "
          "formatted type parses to a supported built-in type, and a second round is idempotent; and the type written to HCL by the registry and "
          "evaluated back through the registry means the same type (family, storage class, size, precision, scale, sign, values); and for every "
          "schema of the document-level families, MarshalHCL then EvalHCLBytes gives a schema with an empty diff in both directions whose re-marshalled "
          "bytes are identical. MySQL ENUM/SET values containing quotes, commas or backslashes, and MySQL NOT ENFORCED checks, are the listed known findings.",
    technique='bounded symbolic execution of the real type formatters/parsers from go/ssa (sizes, precisions, scales as z3 integers; enum bytes symbolic) and, for the HCL levels, execution of the real schemahcl / hashicorp-hcl / go-cty code from source in the same engine (integers case-split where they enter big.Float or fmt); branches and assertions decided by z3; counterexamples replayed natively',
    note="Type slice of C15 (format/parse fix-point and registry-level HCL round trip). Bounded parameter ranges; structural choice of the type family by forking.",
)

def _c02_runs(extra):
    runs = []
    for d, cfg in (("sqlite", _lt), ("mysql", _my), ("postgres", _pg)):
        for g in ("col", "idx", "idxattr", "idxexpr", "rest", "pairs") + extra:
            reach = ["changes", "no-change"]
            runs.append(dict(cfg, harness=f"VerifHarness_C02_{d}_{g}", reach=reach))
    return runs

PROPS["C02"] = dict(
    _lt,
    runs={"quick": _c02_runs(()), "thorough": _c02_runs(("skip",))},
    bounds={
        "quick": "per dialect (SQLite, MySQL 8.0.31, PostgreSQL differs, normalized mode as the CLI uses): a table template with column a "
                 "(present/absent per side; type family int/text/real; NULL-ability symbolic; default none or quoted one-letter literal with symbolic letter; "
                 "MySQL/PostgreSQL: comment none or symbolic letter), index (present/absent; unique and descending symbolic), primary key, foreign key "
                 "(present/absent; composite (b,c)->(id,id2) with child or parent columns optionally swapped; ON DELETE in {unset, NO ACTION, CASCADE}), named check (present/absent; symbolic one-letter expression), SQLite STRICT; "
                 "groups: column / index+pk / fk+check+option with the rest fixed, plus every present/absent combination of all elements x declaration order; "
                 "index attributes on both sides (PostgreSQL: predicate in 3 values x INCLUDE list in 3 values x HASH; MySQL: HASH x comment in 3 values x "
                 "prefix length in 3 values; SQLite: unique x predicate in 3 values)",
        "thorough": "same plus the 2^8 skip-policy subsets (see C19)",
    },
    assumptions=[
        "element presence and type family are structural (explored by forking); NULL, UNIQUE, DESC, default / comment / check text are solver variables",
        "sqlx.Has and the reflect calls of the differ run on the engine's reflect model (reflectsym.go)",
        "defaults are given in the normalized (inspected) spelling: single-quoted literals for MySQL/PostgreSQL; SQLite also double-quoted",
    ],
    outside="realm / schema level objects, views, triggers, functions; renames (interactive askFor*), generated-index-name matching; charset / "
            "collation / auto_increment / identity attributes, index storage parameters, operator classes; DiffModeNotNormalized (needs a live dev connection for PostgreSQL)",
    claim="For every template instance within the bounds the real TableDiff (sqlx.Diff + the dialect driver) returns exactly one change per "
          "elementary edit with exactly the expected ChangeKind flags and nothing for unedited elements; diff with itself / a permuted copy is empty. "
          "The expected set comes from an independent reference in the harness.",
    technique='bounded symbolic execution of the real differ (sqlx.Diff + dialect DiffDriver) from go/ssa: flags (NULL, UNIQUE, DESC...) and the bytes of defaults / comments / check expressions are z3 bit-vector variables, presence of schema elements is a structural fork; every data-dependent branch and every assertion is a z3 query; counterexamples replayed natively',
    note="Bounded template; reference verifExpected is trusted. The non-normalized check comparison (checksSimilarDiff) is legacy and not used by the CLI.",
)

_rows_stubs = {'(*database/sql.Rows).Next': 'verifRowsNext', '(*database/sql.Rows).Scan': 'verifRowsScan',
               '(*database/sql.Rows).Close': 'verifRowsClose', '(*database/sql.Rows).Err': 'verifRowsErr'}
_sqlinit = dict(initallow=["database/sql"])  # sql.ErrNoRows is what a planner without a connection answers
PROPS["C05"] = dict(
    _lt,
    runs={
        "quick": [dict(_sqlinit, harness="VerifHarness_C05_quick", reach=["alter", "rebuild", "ifnull"]),
                  dict(_sqlinit, harness="VerifHarness_C05_conn", reach=["alter", "rebuild", "ifnull"], stubs=_rows_stubs),
                  dict(_sqlinit, harness="VerifHarness_C05_multi", reach=["planned", "wrapped"])],
        "thorough": [dict(_sqlinit, harness="VerifHarness_C05_thorough", reach=["alter", "rebuild", "ifnull"]),
                     dict(_sqlinit, harness="VerifHarness_C05_conn", reach=["alter", "rebuild", "ifnull"], stubs=_rows_stubs),
                     dict(_sqlinit, harness="VerifHarness_C05_multi", reach=["planned", "wrapped"])],
    },
    bounds={
        "quick": "new table of 2 columns, each unchanged / added / modified (ChangeKind = symbolic integer 1..255) / renamed / generated, NULL-ability symbolic, "
                 "default present or not (old side of a modified column too); optionally a dropped old column and an added index; multi-table family: "
                 "three tables each untouched / changed in place / rebuilt / dropped, in 4 declaration orders",
        "thorough": "same with 3 columns",
    },
    assumptions=[
        "environment contract: SQLite pairs INSERT INTO t(c1..cn) SELECT e1..en positionally; ALTER TABLE ADD/RENAME COLUMN and index DDL keep rows",
        "column names are plain identifiers (quoting is C07)",
    ],
    outside="execution on a real SQLite engine with data (values, affinity conversions); MySQL / PostgreSQL in-place ALTER semantics; whether the PRAGMA takes effect (it is a no-op inside a transaction)",
    claim="For every change descriptor within the bounds, the real SQLite planner (modifyTable / copyRows / alterable / alterTable) either alters in "
          "place exactly when every change is expressible by ALTER (and then never rebuilds), or rebuilds with create-new, copy, drop-old, rename in that "
          "order, copying exactly the surviving non-generated columns, each from itself or its old name (NULL-defaulting only for a column that became "
          "NOT NULL with a default); in a plan over several tables every DROP TABLE (a rebuild's or a real one) lies inside the "
          "PRAGMA foreign_keys off/on bracket, so dropping cannot cascade into other tables' rows. Code-level core of C05 only.",
    technique='bounded symbolic execution of the real SQLite planner (modifyTable, copyRows, alterable) from go/ssa: the ChangeKind of each modified column is a z3 bit-vector (all 255 values), nullability symbolic, structure by forks; assertions decided by z3; counterexamples replayed natively',
    note="Bounded; the statement-shape parser in the harness is trusted. The data-level half of C05 needs a real engine and is outside the claim.",
)

PROPS["C04"] = dict(
    _my,
    runs={
        "quick": [
            dict(_my, harness="VerifHarness_C04_mysql_n3", reach=["planned"]),
            dict(_pg, harness="VerifHarness_C04_postgres_n3", reach=["planned"]),
        ],
        "thorough": [
            dict(_my, harness="VerifHarness_C04_mysql_n3", reach=["planned"]),
            dict(_pg, harness="VerifHarness_C04_postgres_n3", reach=["planned"]),
            dict(_my, harness="VerifHarness_C04_mysql_create4", reach=["planned"]),
            dict(_my, harness="VerifHarness_C04_mysql_drop4", reach=["planned"]),
            dict(_pg, harness="VerifHarness_C04_postgres_create4", reach=["planned"]),
            dict(_pg, harness="VerifHarness_C04_postgres_drop4", reach=["planned"]),
        ],
    },
    bounds={
        "quick": "MySQL and PostgreSQL planners: all 2^9 directed foreign-key graphs (self loops included) over 3 tables x every role assignment "
                 "{created, dropped, kept gaining its keys, kept losing its keys} consistent with the edges x both input orders",
        "thorough": "same plus all 2^16 graphs over 4 tables for create-all and drop-all",
    },
    assumptions=[
        "the inputs are purely structural (which keys exist, which tables are created/dropped): they are explored exhaustively by path forking, "
        "the solver has nothing to decide here (stated in DESIGN.md section 2.7)",
        "reference catalogue in the harness replays Plan.Changes[i].Source in order",
    ],
    outside="graphs over 5+ tables; dependencies through views, functions, types; the SQLite planner (no DetachCycles)",
    claim="For every graph/role combination within the bounds the real PlanChanges (topLevel, DetachCycles, SortChanges, statement builders) "
          "plans without error; replaying the planned sources in order, every table is created before a key pointing at it is declared, dropped only "
          "after all keys pointing at it are gone, created/dropped exactly once, and all intended keys end up declared/removed.",
    technique="bounded exploration of the real planners (SortChanges, detachReferences, PlanChanges) from go/ssa over every foreign-key graph of the bound; the inputs are structural (graph shape, order), so the engine's choice points enumerate them exhaustively and z3 decides only the data-dependent branches that arise (few); counterexamples replayed natively",
    note="Exhaustive structural enumeration (coverage.exhaustive) executed on the real SSA by the symbolic engine.",
)

PROPS["C16"] = dict(
    _my,
    runs={
        "quick": [
            dict(_my, harness="VerifHarness_C16_mysql", reach=["planned", "rejected"]),
            dict(_pg, harness="VerifHarness_C16_postgres", reach=["planned", "rejected"]),
        ],
        "thorough": [
            dict(_my, harness="VerifHarness_C16_mysql", reach=["planned", "rejected"]),
            dict(_pg, harness="VerifHarness_C16_postgres", reach=["planned", "rejected"]),
        ],
    },
    bounds={
        "quick": "MySQL and PostgreSQL planners x 11 change sets (create table with index/check/comment/pk; with a foreign key to another table; drop table; "
                 "add+drop column; add+drop index; add foreign key; modify column type+comment; rename table; add schema; drop schema; tables of two schemas) x "
                 "qualifier {none requested, empty, custom}; the schema name is a symbolic 2-byte string over x..z and the custom qualifier a symbolic 2-byte "
                 "string over u..w (letters no other identifier uses)",
        "thorough": "same (the change-set catalogue is the bound)",
    },
    assumptions=[
        "non-interference formulation: with symbolic name bytes, 'no statement mentions the schema name' is decided by the solver for all names of the marker alphabet at once",
        "PostgreSQL identifier quoting via fmt %q is executed by the real strconv.Quote on the symbolic text",
    ],
    outside="SQLite (always unqualified), enum/domain/sequence objects of enterprise builds, names outside the 2-byte marker alphabet, cmdapi planOptions wiring",
    claim="For every change set of the catalogue and every schema name / qualifier of the marker alphabets, a plan scoped with the empty qualifier "
          "contains no planned or reverse statement mentioning the schema name or touching a schema, schema-level and two-schema change sets are rejected, "
          "and with a custom qualifier every table reference is prefixed by exactly that qualifier.",
    technique='bounded symbolic execution of the real planners from go/ssa with the schema name and the qualifier as z3 byte variables (non-interference: no byte of the name reaches a statement); branches and assertions decided by z3; counterexamples replayed natively',
    note="Bounded by the change-set catalogue. Trusted: engine, z3, the occurrence scanner verifQualified.",
)

_st = dict(pkg="ariga.io/atlas/sql/sqltool", hdir="sqltool")
PROPS["C17"] = dict(
    _st,
    runs={
        "quick": [
            dict(_st, harness="VerifHarness_C17_files2", reach=["reversible", "irreversible"], flags=["-domain"]),
            dict(_st, harness="VerifHarness_C17_long", reach=["reversible"]),
            dict(_my, harness="VerifHarness_C17_mysql", reach=["reverse"]),
            dict(_my, harness="VerifHarness_C17_mysql_seq", reach=["reverse", "irreversible"]),
            dict(_my, harness="VerifHarness_C17_mysql_multi", reach=["reverse"]),
            dict(_pg, harness="VerifHarness_C17_postgres", reach=["reverse"]),
            dict(_pg, harness="VerifHarness_C17_postgres_seq", reach=["reverse", "irreversible"]),
            dict(_pg, harness="VerifHarness_C17_postgres_multi", reach=["reverse"]),
            dict(_lt, harness="VerifHarness_C17_sqlite", reach=["reverse", "irreversible"]),
            dict(_lt, harness="VerifHarness_C17_sqlite_multi", reach=["reverse"]),
            dict(_my, harness="VerifHarness_C17_mysql_restore", reach=["reversible"]),
            dict(_pg, harness="VerifHarness_C17_postgres_restore", reach=["reversible"]),
            dict(_lt, harness="VerifHarness_C17_sqlite_restore", reach=["reversible"]),
        ],
        "thorough": [
            dict(_st, harness="VerifHarness_C17_files2", reach=["reversible", "irreversible"]),
            dict(_st, harness="VerifHarness_C17_files3", reach=["reversible", "irreversible"], flags=["-domain"], cross=False),
            dict(_st, harness="VerifHarness_C17_long", reach=["reversible"]),
            dict(_my, harness="VerifHarness_C17_mysql", reach=["reverse"]),
            dict(_my, harness="VerifHarness_C17_mysql_seq", reach=["reverse", "irreversible"]),
            dict(_my, harness="VerifHarness_C17_mysql_multi", reach=["reverse"]),
            dict(_pg, harness="VerifHarness_C17_postgres", reach=["reverse"]),
            dict(_pg, harness="VerifHarness_C17_postgres_seq", reach=["reverse", "irreversible"]),
            dict(_pg, harness="VerifHarness_C17_postgres_multi", reach=["reverse"]),
            dict(_lt, harness="VerifHarness_C17_sqlite", reach=["reverse", "irreversible"]),
            dict(_lt, harness="VerifHarness_C17_sqlite_multi", reach=["reverse"]),
            dict(_my, harness="VerifHarness_C17_mysql_restore", reach=["reversible"]),
            dict(_pg, harness="VerifHarness_C17_postgres_restore", reach=["reversible"]),
            dict(_lt, harness="VerifHarness_C17_sqlite_restore", reach=["reversible"]),
        ],
    },
    bounds={
        "quick": "plans of 1..2 changes whose Reverse is nil / a string / an empty list / 1 or 2 statements with one symbolic byte each "
                 "(letters, digits, space, underscore, comma), optional comments, x {golang-migrate, goose, flyway, dbmate} formatters; long plans of 1, 5, 12, 13, 14, 20 or 33 changes with one reverse "
                 "statement each (one symbolic byte); planner plans: "
                 "8 change sets per dialect (MySQL, PostgreSQL, SQLite); restore content: drop table / drop index / change default / drop check / drop "
                 "foreign key / drop column+index of a table whose default, index predicate and check expression are 2-digit solver-chosen markers "
                 "and whose index is unique / descending / partial and column nullable by symbolic booleans (SQLite: the first three sets)",
        "thorough": "same with up to 3 changes",
    },
    assumptions=[
        "formatter templates are the real parsed text/template trees, evaluated by the engine's template evaluator (tmpleval.go) on interpreter values",
        "the down file is read back with migrate.Stmts (Atlas itself never reads down sections)",
        "SQLite's PRAGMA foreign_keys off/on statements around a rebuild are session settings and have nothing to reverse",
    ],
    outside="executing up then down on a real engine and inspecting (needs SQLite/MySQL/PostgreSQL); Liquibase rollback comments; reverse statements "
            "containing quotes, semicolons or newlines (quoting is C07)",
    claim="For every plan within the bounds, Plan.Reversible is set iff every change yields at least one reverse statement, and the down file or "
          "section written by each formatter scans to exactly the reverse statements of the changes in reverse order; for the planner catalogue every "
          "reverse statement is the structural inverse of its forward statement (create/drop table, add/drop column, index, constraint) and a plan with an "
          "unreversed change (SQLite rebuild) is not reported reversible; the reverse of a destructive change mentions everything that defined the "
          "dropped object (index uniqueness, columns in order, direction, predicate; column type, nullability, default; check name and expression; "
          "foreign-key reference and action).",
    technique="bounded symbolic execution from go/ssa of SetReversible / ReverseStmts / the formatters' down templates (real parsed trees) with reverse statement bytes and restored values as z3 variables; planner catalogue by forks; assertions decided by z3; counterexamples replayed natively",
    note="Flag and down-file slice of C17; bounded. Trusted: template evaluator, engine, z3, the keyword-level inverse table in the harness.",
)

_c20 = [
    dict(MIGRATE, harness="VerifHarness_C20_dir", reach=["compared"]),
    dict(MIGRATE, harness="VerifHarness_C20_format2", reach=["compared"]),
    dict(_my, harness="VerifHarness_C20_mysql", reach=["compared"]),
    dict(_my, harness="VerifHarness_C20_mysql_scope", reach=["compared"]),
    dict(_pg, harness="VerifHarness_C20_postgres", reach=["compared"]),
    dict(_pg, harness="VerifHarness_C20_postgres_scope", reach=["compared"]),
    dict(_lt, harness="VerifHarness_C20_sqlite", reach=["compared"]),
    dict(_my, harness="VerifHarness_C20_mysql_names", reach=["compared"]),
    dict(_pg, harness="VerifHarness_C20_postgres_names", reach=["compared"]),
    dict(_my, harness="VerifHarness_C20_mysql_replan", reach=["compared"]),
    dict(_pg, harness="VerifHarness_C20_postgres_replan", reach=["compared"]),
    dict(_lt, harness="VerifHarness_C20_sqlite_replan", reach=["compared"]),
]
def _c20_hcl(dev):
    return [dict(c, **_hclfull, harness="VerifHarness_C20_%s_hcl" % d, reach=["compared"], flags=["-mapdev", str(dev)])
            for d, c in (("sqlite", _lt), ("mysql", _my), ("postgres", _pg))]
PROPS["C20"] = dict(
    MIGRATE,
    replay_retries=20,
    runs={"quick": _c20 + _c20_hcl(1), "thorough": _c20 + _c20_hcl(2)},
    bounds={
        "quick": "schedule = iteration order of every `range` over a map inside ariga.io/atlas code (all permutations for maps of <=3 entries; identity, "
                 "reverse and one rotation beyond) x write order of 4 directory files x 4 declaration orders of a 3-table change set with chain / cycle / "
                 "diamond+self foreign keys, for the MySQL, PostgreSQL and SQLite planners, MemDir listing/checksum/sum file, DefaultFormatter, and the "
                 "multi-schema rejection message; planning the same change objects twice (a table modification of 4 sub-changes in 5 orders plus an added and "
                 "a dropped table); HCL evaluation: 3 file sets (same base name in two directories; a foreign key across files; three "
                 "files with two sharing a base name) per dialect, parsed by the real hclparse, evaluated (EvalHCL) and re-marshalled (MarshalHCL), "
                 "with at most 1 map range per path iterating in a permuted order (-mapdev 1)",
        "thorough": "same; HCL evaluation with at most 2 permuted map ranges per path",
    },
    assumptions=[
        "map iteration orders are explored by the engine's choice points (structural enumeration, stated in DESIGN.md 2.6/2.7); time.Now is the zero time",
        "each path computes the output once in insertion order and once in the chosen order and compares them",
    ],
    outside="HCL documents beyond the three file sets, more simultaneous permuted map ranges than the bound, cross-process runs, goroutine interleavings / the race detector (the engine is single-threaded), "
            "pointer-address dependent behaviour, maps with more than 3 entries beyond three orders",
    claim="For every explored map-iteration order the planners' statements (and reverse statements), directory listings, sum files and formatted files "
          "are byte-identical; permuting the declaration order of the change set yields the same multiset of statements and flags; planning the same "
          "changes twice gives the same statements and leaves the caller's change lists untouched; evaluating "
          "the same HCL files and marshalling the result gives the same bytes under every explored map order.",
    technique="bounded schedule exploration on the real code from go/ssa: the iteration order of every map range in Atlas code, write orders and declaration orders are choice points of the engine (a schedule space, enumerated exhaustively within the bound; the inputs carry no data for z3 to decide); outputs compared bytewise; counterexamples replayed natively (repeated, since Go's real order is random)",
    note="Schedule enumeration on the real SSA; no concurrency. Trusted: engine's ordered-map model (Go's real order is unspecified; every order the "
         "engine explores is a legal one).",
)

PROPS["C14"] = dict(
    _lt,
    runs={
        "quick": [
            dict(harness="VerifHarness_C14_replay", reach=["dirty", "clean", "restored", "restore-failed", "replayed"]),
            dict(harness="VerifHarness_C14_normalize", reach=["dirty", "clean", "restored", "restore-failed", "normalized"]),
            dict(harness="VerifHarness_C14_gate", reach=["dirty", "clean", "refused"]),
            dict(pkg="ariga.io/atlas/sql/mysql", hdir="mysql", harness="VerifHarness_C14_mysql_normalize", reach=["dirty", "clean", "normalized", "fault"]),
            dict(module="cmd/atlas", pkg="ariga.io/atlas/cmd/atlas/internal/migratelint", hdir="migratelint", harness="VerifHarness_C14_lint",
                 reach=["loaded", "failed", "checkpoint", "restored", "restore-failed"]),
        ],
        "thorough": [
            dict(harness="VerifHarness_C14_replay3", reach=["dirty", "clean", "restored", "restore-failed", "replayed"]),
            dict(harness="VerifHarness_C14_normalize", reach=["dirty", "clean", "restored", "restore-failed", "normalized"]),
            dict(harness="VerifHarness_C14_gate", reach=["dirty", "clean", "refused"]),
            dict(pkg="ariga.io/atlas/sql/mysql", hdir="mysql", harness="VerifHarness_C14_mysql_normalize", reach=["dirty", "clean", "normalized", "fault"]),
            dict(module="cmd/atlas", pkg="ariga.io/atlas/cmd/atlas/internal/migratelint", hdir="migratelint", harness="VerifHarness_C14_lint3",
                 reach=["loaded", "failed", "checkpoint", "restored", "restore-failed"]),
        ],
    },
    bounds={
        "quick": "dev database holding 0..2 user tables; Executor.Replay over directories of 1..2 files x 2 statements, and DevDriver.NormalizeRealm / "
                 "NormalizeSchema of 1..2 tables; the index of the failing dev-database operation (inspection or statement, including the restore's own "
                 "statements; or none) is a symbolic integer; the last replayed file optionally unscannable; the SQLite cleanliness gate on 0..2 tables with "
                 "symbolic one-letter names against a symbolic revisions-table name; MySQL schema-bound dev connection: NormalizeSchema on an empty or "
                 "non-empty dev schema (latin1) with a desired schema that has no / other / the same charset and collation, failing operation symbolic; migrate lint: DevLoader.LoadChanges over 0..1 base files and 1..2 new files x 2 statements, any one of "
                 "them (or none) a checkpoint, the last file optionally holding an invalid statement, same symbolic failing operation",
        "thorough": "same with directories of up to 3 files",
    },
    assumptions=[
        "model dev database = table count + log of statements (harness/sqlite/zz_verif_c14.go); the real sqlite.Driver.Snapshot / CheckClean decision "
        "logic runs on a modelled InspectRealm (a real SQLite reports one schema 'main'; attached databases are outside)",
        "a failing operation has no effect on the dev database",
    ],
    outside="what a real SQLite InspectRealm can see (the community build reports no views or triggers, so a dev database holding only a view is not "
            "recognised as dirty: needs the real engine), the VACUUM-based restore itself, PostgreSQL snapshot code, MySQL realm-scoped snapshots, the SQLite file lock, the "
            "--dev-url wiring of each CLI command (cmd/atlas module)",
    claim="For every initial dev state and every failing operation within the bounds: a non-empty dev database is refused and no statement at all is run on "
          "it; otherwise the restore is attempted on every exit path, nothing runs after it started, a completed restore leaves the database empty, a "
          "failing restore is reported, and replaying never writes to the directory; the same exit-path guarantee holds for migrate lint's DevLoader.LoadChanges "
          "(with its intermediate restores before checkpoint files).",
    technique='bounded symbolic execution of the real Replay / Normalize / LoadChanges / Snapshot code from go/ssa over a modelled dev database whose failing operation index is a z3 integer; branches and assertions decided by z3; counterexamples replayed natively',
    note="Bounded; environment model as above. Trusted: engine, z3.",
)

def _c07_runs(tier):
    runs = []
    for d, cfg in (("mysql", _my), ("postgres", _pg), ("sqlite", _lt)):
        names = ["atlas_n1", "atlas_t1", "atlas_q3", "plain", "foreign"]
        if tier == "thorough":
            names += ["atlas", "atlas_names2"]
        for g in names:
            if d == "postgres" and g == "atlas_names2":
                continue  # 4 jointly symbolic name bytes do not finish within the tier's time limit: split below
            runs.append(dict(cfg, harness=f"VerifHarness_C07_{d}_{g}", reach=["read"], cross=(g not in ("atlas", "atlas_names2"))))
    # PostgreSQL: two symbolic bytes in the table name, and (separately) two in the column name
    runs.append(dict(_pg, harness="VerifHarness_C07_postgres_atlas_names2t", reach=["read"], cross=False))
    runs.append(dict(_pg, harness="VerifHarness_C07_postgres_atlas_names2c", reach=["read"], cross=False))
    runs.append(dict(_lt, harness="VerifHarness_C07_sqlite_foreign2", reach=["read"]))
    # two free bytes in the default and the comment texts (PostgreSQL: a literal's escape syntax may depend on two characters)
    runs.append(dict(_pg, harness="VerifHarness_C07_postgres_atlas_texts2", reach=["read"], cross=False))
    if tier == "thorough":
        runs.append(dict(_pg, harness="VerifHarness_C07_postgres_foreign2", reach=["read"], cross=False))
    runs.append(dict(_my, harness="VerifHarness_C07_mysql_witness_reader", role="witness", key="C07-mysql-foreign-reader-escapes"))
    runs.append(dict(_lt, harness="VerifHarness_C07_sqlite_witness_multiline", role="witness", key="C07-foreign-reader-multiline"))
    return runs

PROPS["C07"] = dict(
    _my,
    runs={"quick": _c07_runs("quick"), "thorough": _c07_runs("thorough")},
    bounds={
        "quick": "per dialect (MySQL, PostgreSQL, SQLite): a one-table plan (CREATE TABLE with primary key, default, comment, plus CREATE INDEX) whose "
                 "table and column names end in 1 fully symbolic byte (texts concrete), or whose default literal and column comment end in 1 fully "
                 "symbolic byte (names concrete), or whose table name ends in 3 and column name in 1 symbolic bytes drawn from {identifier quote, 'a'}; "
                 "formatters: Atlas default; golang-migrate, flyway and liquibase (plain files); goose and dbmate (own readers); "
                 "SQLite also with 2-byte texts through the goose / dbmate readers; read back with migrate.FileStmts and the dialect driver's ScanStmts",
        "thorough": "same plus names and texts symbolic together (1 byte each), 2-byte names, and 2-byte texts through the goose / dbmate readers for PostgreSQL",
    },
    assumptions=[
        "the default value is given as an HCL document gives it (raw text in schema.Literal, quoted by the planner)",
        "formatter templates evaluated by the engine's template evaluator on the real parsed trees",
    ],
    outside="plans of several tables / other change kinds, enterprise BEGIN...END bodies, the import command, "
            "longer symbolic strings, enum values (see C15 finding)",
    claim="For every value of the symbolic bytes (quotes, semicolons, comment markers, backslashes, newlines, non-ASCII included) the statements read back "
          "from the written file are exactly the planned commands, same count, order and text, for each formatter/reader pair; the goose / dbmate readers on "
          "MySQL texts that need backslash-escape awareness, and literals whose line break follows white space or a semicolon (line-based readers), are the listed known findings.",
    technique='bounded symbolic execution from go/ssa of planner -> formatter templates (the real parsed text/template trees) -> file -> real statement scanner, with identifier / literal bytes as z3 variables; branches and assertions decided by z3; counterexamples replayed natively',
    note="Bounded by string length and the one-table plan. Trusted: engine (incl. strconv.Quote run from source), template evaluator, z3.",
)

_cmdapi_stubs = {'(*ariga.io/atlas/cmd/atlas/internal/cmdapi.Env).openClient': 'verifStubOpenClient',
 '(*ariga.io/atlas/cmd/atlas/internal/cmdapi.MigrateReport).Done': 'verifStubReportDone',
 '(*ariga.io/atlas/cmd/atlas/internal/cmdapi.MigrateReport).Init': 'verifStubReportInit',
 '(*ariga.io/atlas/cmd/atlas/internal/cmdapi.MigrateReport).RecordPlanError': 'verifStubReportPlanError',
 '(*ariga.io/atlas/cmd/atlas/internal/cmdapi.MigrateReport).RecordTargetID': 'verifStubReportTargetID',
 '(*ariga.io/atlas/cmd/atlas/internal/cmdlog.MigrateApply).Log': 'verifStubLog',
 '(*ariga.io/atlas/sql/sqlclient.Client).Close': 'verifStubClose',
 '(*ariga.io/atlas/sql/sqlclient.Client).Tx': 'verifStubTx',
 '(*ariga.io/atlas/sql/sqlclient.TxClient).Commit': 'verifStubCommit',
 '(*ariga.io/atlas/sql/sqlclient.TxClient).Rollback': 'verifStubRollback',
 'ariga.io/atlas/cmd/atlas/internal/cmdapi.checkRevisionSchemaClarity': 'verifStubSchemaClarity',
 'ariga.io/atlas/cmd/atlas/internal/cmdapi.entRevisions': 'verifStubEntRevisions',
 'ariga.io/atlas/cmd/atlas/internal/cmdapi.operatorVersion': 'verifStubOperatorVersion',
 'ariga.io/atlas/cmd/atlas/internal/cmdapi.printChecksumError': 'verifStubPrintChecksumError',
 'ariga.io/atlas/cmd/atlas/internal/cmdlog.NewMigrateApply': 'verifStubNewMigrateApply',
 'ariga.io/atlas/cmd/atlas/internal/migrate.DirURL': 'verifStubDirURL',
 'github.com/spf13/cobra.CheckErr': 'verifStubCheckErr'}
_ca = dict(module="cmd/atlas", pkg="ariga.io/atlas/cmd/atlas/internal/cmdapi", hdir="cmdapi", stubs=_cmdapi_stubs)
PROPS["C13"] = dict(
    _ca,
    runs={
        "quick": [
            dict(_ca, harness="VerifHarness_C13_fail", reach=["failed-file", "failed-all", "failed-none"], validate=1),
            dict(_ca, harness="VerifHarness_C13_dryrun", reach=["dry-run"], validate=1),
            dict(_ca, harness="VerifHarness_C13_schema_apply", reach=["applied", "failed-none", "failed-tx"], validate=4),
            dict(_ca, harness="VerifHarness_C13_grow", reach=["grown-none", "grown-file"], validate=8, native_asserts=True),
            dict(_ca, harness="VerifHarness_C13_alldirective", reach=["rejected"], validate=4),
            dict(_lt, **_sqlinit, module="", stubs=_rows_stubs, harness="VerifHarness_C13_sqlite_commit", reach=["commit", "rollback"]),
            dict(_ca, harness="VerifHarness_C13_dryrun_witness", role="witness", key="C13-dry-run-writes"),
        ],
        "thorough": [
            dict(_ca, harness="VerifHarness_C13_fail3", reach=["failed-file", "failed-all", "failed-none"], validate=3),
            dict(_ca, harness="VerifHarness_C13_dryrun", reach=["dry-run"], validate=3),
            dict(_ca, harness="VerifHarness_C13_schema_apply3", reach=["applied", "failed-none", "failed-tx"], validate=6),
            dict(_ca, harness="VerifHarness_C13_grow", reach=["grown-none", "grown-file"], validate=8, native_asserts=True),
            dict(_ca, harness="VerifHarness_C13_alldirective", reach=["rejected"], validate=4),
            dict(_lt, **_sqlinit, module="", stubs=_rows_stubs, harness="VerifHarness_C13_sqlite_commit", reach=["commit", "rollback"]),
            dict(_ca, harness="VerifHarness_C13_dryrun_witness", role="witness", key="C13-dry-run-writes"),
        ],
    },
    bounds={
        "quick": "directories of 1..2 files x 1..2 statements, --tx-mode {file, all, none}, per-file `atlas:txmode` directive {absent, none, file}, every position "
                 "of the failing statement, then fix-and-re-run; dry-run on a fresh database and on one with history, with and without --baseline; schema apply: applyChanges over 1..2 changes (AddTable "
                 "with 0..2 indexes, i.e. 1..3 statements each, planned by the real SQLite planner), tx mode {default, none}, every position of a failing statement; "
                 "all-mode directive family: 1..3 files x 1..2 statements, one file carrying a (rejected) txmode directive; grow family: 2 files x 2 statements, modes none and file, the fix of the failed file also appends a statement, then one more run "
                 "(all 8 paths also executed on the real CLI + SQLite, where the real revision store - generated ent code the engine does not run - is exercised)",
        "thorough": "same with up to 3 files / 3 changes",
    },
    assumptions=[
        "engine side: the real migrateApplyRun / tx multiplexer / Executor run against a transactional model store (journal, revision table, one open "
        "transaction with a working copy) through function substitution of the connection seam: " + ", ".join(sorted(_cmdapi_stubs)),
        "every counterexample is replayed on the real `migrate apply` command with a real SQLite file (harness/cmdapi/zz_verif_env.go), failing statement = insert into a missing table",
        "inputs are structural (shape, mode, directives, failing position): explored by forking",
    ],
    outside="schema apply beyond applyChanges (diffing, approval, lint), SQLite OpenTx foreign-key toggling and deferred violations, other dialects' implicit commits, reports / exit codes",
    claim="For every shape, transaction mode, directive assignment and failing position within the bounds, after a failure the store holds exactly what the "
          "mode promises (file: complete files before the failing one; all: nothing; none: the successful prefix) with revisions matching the journal, and fixing "
          "the file and re-running reaches the fault-free final state; a dry run on a database with history changes nothing; applyChanges (schema apply) "
          "leaves nothing of a failed plan in its default mode and exactly the successful prefix in none mode. A dry run on a database without revision "
          "table is the listed known finding.",
    technique='bounded exploration of the real migrate-apply / schema-apply code from go/ssa against a transactional model store; failing position, modes and directives are structural forks (z3 decides the few data-dependent branches); sampled paths and all counterexamples executed on the real CLI / real sqlclient + SQLite',
    note="Model-store based (bounded); stub fidelity is guarded by replaying counterexamples and sampled paths on the real CLI + SQLite.",
)

PROPS["C10"] = dict(
    _ca,
    runs={
        "quick": [dict(_ca, harness="VerifHarness_C10_quick", reach=["crashed-file", "crashed-all", "crashed-none", "no-crash"], validate=16),
                  dict(_ca, harness="VerifHarness_C10_ckpt", reach=["crashed-file", "crashed-all", "crashed-none", "no-crash", "checkpoint"], validate=16),
                  dict(_ca, harness="VerifHarness_C10_dir", reach=["crashed-file", "crashed-none", "no-crash", "directive"], validate=16),
                  dict(_ca, harness="VerifHarness_C10_twice", reach=["crashed-twice"], validate=8)],
        "thorough": [dict(_ca, harness="VerifHarness_C10_thorough", reach=["crashed-file", "crashed-all", "crashed-none", "no-crash"], validate=24),
                     dict(_ca, harness="VerifHarness_C10_ckpt3", reach=["crashed-file", "crashed-all", "crashed-none", "no-crash", "checkpoint"], validate=24),
                     dict(_ca, harness="VerifHarness_C10_dir3", reach=["crashed-file", "crashed-none", "no-crash", "directive"], validate=24),
                     dict(_ca, harness="VerifHarness_C10_twice", reach=["crashed-twice"], validate=16)],
    },
    bounds={
        "quick": "directories of 1..2 files x 1..2 statements, --tx-mode {file, all, none}; the index of the store event at which the process dies "
                 "(transaction begin, statement execution, revision write, commit) is a symbolic integer over the whole run; then the same command is run again; "
                 "second family: the same with any one file (or none) tagged atlas:checkpoint; third family: global mode file or none with a per-file "
                 "atlas:txmode directive (none / file / absent) on every file; fourth family: two crashes (the re-run dies too, both crash points symbolic) "
                 "on one file of three statements in none mode, then a third run",
        "thorough": "same with up to 3 files",
    },
    assumptions=[
        "a crash is modelled from the database's point of view: the event at the crash index and everything after it has no effect and the open "
        "transaction is rolled back (equivalent to process death for the stored state)",
        "engine side: real migrateApplyRun / tx multiplexer / Executor on the transactional model store through the same function substitutions as C13",
        "native validation and replay: the real command on a real SQLite file opened through an event-counting database/sql driver that kills the "
        "'process' at the same event index (harness/cmdapi/zz_verif_crash.go)",
    ],
    outside="SQLite-specific commit behaviour (foreign-key toggling, deferred violations), torn writes below "
            "the SQL level, other dialects' implicit commits, crashes inside the revision-table migration",
    claim="For every shape, transaction mode and crash event within the bounds: the surviving revision table never records a statement whose effect is "
          "not in the journal, in file and all modes no file is half applied, and re-running the same command completes with every statement present "
          "exactly once (file, all) or at least once with at most the single in-flight statement twice (none); with per-file directives the "
          "guarantee of each file is the one of its effective mode.",
    technique='bounded symbolic execution of the real migrate-apply code (migrateApplyRun, tx multiplexer, Executor) from go/ssa against a transactional model store; the crash event index is a z3 integer over the whole run, shapes/modes by forks; assertions decided by z3; sampled paths and all counterexamples executed on the real CLI + SQLite through an event-counting driver',
    note="Model-store based and bounded; fidelity guarded by executing sampled paths and all counterexamples on the real CLI + SQLite with the crash driver.",
)

PROPS["C03"] = dict(
    _lt,
    runs={
        "quick": [
            dict(harness="VerifHarness_C03_index2", reach=["recovered", "expression"], stubs=_rows_stubs),
            dict(harness="VerifHarness_C03_types", reach=["recovered"]),
            dict(_hclfull, harness="VerifHarness_C15_sqlite_doc_strings", reach=["evaluated"]),
            dict(_hclfull, harness="VerifHarness_C15_sqlite_doc_objects", reach=["evaluated"]),
            dict(harness="VerifHarness_C03_names", reach=["recovered"]),
            dict(harness="VerifHarness_C03_checks3", reach=["recovered"], flags=["-domain"]),
            dict(harness="VerifHarness_C03_checksq", reach=["recovered"], flags=["-domain"]),
            dict(harness="VerifHarness_C03_gen3", reach=["recovered"], flags=["-domain"]),
        ],
        "thorough": [
            dict(harness="VerifHarness_C03_index3", reach=["recovered", "expression"], stubs=_rows_stubs, cross=False),
            dict(harness="VerifHarness_C03_types", reach=["recovered"]),
            dict(harness="VerifHarness_C03_names", reach=["recovered"]),
            dict(harness="VerifHarness_C03_checks2", reach=["recovered"], cross=False),
            dict(harness="VerifHarness_C03_checks3", reach=["recovered"]),
            dict(harness="VerifHarness_C03_checksq", reach=["recovered"]),
            dict(harness="VerifHarness_C03_gen3", reach=["recovered"]),
        ],
    },
    bounds={
        "quick": "SQLite CREATE TABLE emitted by the planner for a table with primary key (AUTOINCREMENT or not), a foreign key (named with a symbolic \\w "
                 "character, or unnamed), one CHECK constraint (named or not) whose expression ends in 3 symbolic bytes over {a,b,c,1,space,(,),',\",`,>,+,_}, "
                 "a STORED generated column whose expression ends in 3 such bytes; expressions assumed balanced in parentheses and quotes; index slice: one index of "
                 "1..2 key parts (column or expression of 2 symbolic bytes, ascending or descending), optionally unique and partial, emitted by the planner and "
                 "recovered by the real inspect.indexes (pragma answers modelled from the emitted statement); type slice: every type of the SQLite catalogue "
                 "(38 names incl. 3 user-defined spellings x 3 argument forms x 2 cases) exported by FormatType, inspected again by ParseType and compared by the real differ; HCL export: the SQLite document-level families of C15 "
                 "(strings and objects: MarshalHCL -> EvalHCLBytes -> differ in both directions)",
        "thorough": "same plus two CHECK constraints with 2 symbolic bytes each",
    },
    assumptions=[
        "SQLite stores the CREATE statement verbatim in sqlite_master.sql (documented behaviour); what pragma-based inspection returns (columns, "
        "primary key, foreign key with numeric id) is constructed by the harness",
        "expressions are balanced in parentheses and quotes (SQLite rejects anything else) and contain no top-level comma",
    ],
    outside="pragma-based inspection on a real engine, SQL export through cmdlog, statements rewritten by "
            "ALTER TABLE, determinism of a second inspection, other dialects",
    claim="For every expression text within the bounds, the CHECK constraints (names and expressions), the foreign-key constraint name, the "
          "AUTOINCREMENT flag and the generated-column expression recovered by fillChecks / fillConstName / autoinc / setGenExpr / scanExpr from the "
          "statement the planner emitted equal what was emitted.",
    technique="bounded symbolic execution of the real SQLite planner and inspection code from go/ssa over fully symbolic expression / name bytes (regexp matching by the engine's symbolic matcher); branches and assertions decided by z3; *sql.Rows served by substituted functions; counterexamples replayed natively on the real database/sql",
    note="Statement-text slice of C03 only. Bounded; the regular expressions of inspect.go run on the engine's symbolic matcher.",
)

NOT_APPLICABLE = {
    "C01": "needs a real SQLite engine executing the planned SQL and pragma-based inspection; neither cgo code nor SQLite's DDL "
           "semantics can be encoded by an SSA-level symbolic executor, and a hand-written catalogue model would verify the model, not Atlas "
           "(the reachable code-level pieces are claimed under C02, C03, C05)",
}
# ---- families added in round five (bounds text) ----
_r5 = {
    "C02": "; expression-part group: an index of a column part and an optional expression part ((b + 1) / (b + 2)), each with a symbolic direction; the named check of the fk+check group carries a symbolic dialect attribute (MySQL NOT ENFORCED, PostgreSQL NO INHERIT)",
    "C03": "; quoting family: two CHECK constraints whose expressions end in 3 and 2 symbolic bytes over {a, ', \\, (, ), blank}",
    "C05": "; connected-planner family: the same template planned on a connection that answers every query with 0 or 1 rows; the unchanged first column may be the AUTOINCREMENT primary key",
    "C07": "; PostgreSQL with 2 symbolic bytes in the default and in the comment text (Atlas format); SQLite Atlas-format families: the default is raw text or a well-formed double-quoted literal; 2-byte names: jointly in table and column name for MySQL and SQLite (thorough), for PostgreSQL two bytes in the table name and, separately, two in the column name (both tiers; the joint 4-byte family does not finish within the time limit and is outside the claim)",
    "C08": "; prefixes that close a comment directly with the delimiter",
    "C09": "; checkpoint family: any subset of up to 3 files are checkpoints",
    "C12": "; sums family: 2 old / 0..2 new concrete statements chosen among 5 texts whose real SHA-256 digests begin with '7', 'h', '1', 'hl', '1S' (the engine evaluates the real digest of concrete pre-images); file hashes are the real directory checksum (token model), Revision.Hash included in the untouched-history assertion",
    "C13": "; SQLite commit gate: CommitFunc over arbitrary foreign_key_check answers before and at commit (0..2 rows each; table letter in {a,b}, row id in 0..1 symbolic)",
    "C14": "; the gate family uses fully symbolic 2-byte table names and also asks Driver.Snapshot",
    "C15": "; the expression part of the document-level index has a symbolic direction; SQLite document families: symbolic nullability of the primary-key column",
    "C16": "; the second schema of a two-schema change set is named \"w\"+name or by any other 2 symbolic bytes over {x..z, X..Z} (case-only differences included)",
    "C17": "; sequence family (MySQL, PostgreSQL): one ModifyTable with an ordered pair out of 9 sub-changes (add/drop column, unnamed/named check, drop check, add foreign key, modify column, add/drop index); multi family (three dialects): two top-level changes in either order out of {add table, drop table t1, drop table t0, modify table}",
    "C18": "; window family: two new files (with or without a base file), the second drops a table created by the base or by the first; rebuild families: first letter of each table name symbolic over {t, n, e, w, _}",
    "C06": "; two files whose first has 0..3 fully symbolic bytes in either directory (lens2)",
    "C19": "; 3-byte globs over the class alphabet {a, b, [, ], -, ^} (ExcludeRealm last part and ExcludeSchema); thorough: 4 bytes",
    "C20": "; names family (MySQL, PostgreSQL): 3 tables named by one symbolic byte each over {a, A, b, B, _}, pairwise distinct, 3 foreign-key shapes; the re-planned modification also holds a ModifyColumn (type + comment) first or last (MySQL, PostgreSQL)",
}
for _p, _t in _r5.items():
    for _tier in ("quick", "thorough"):
        PROPS[_p]["bounds"][_tier] = PROPS[_p]["bounds"][_tier] + _t

for _p in ["C10","C11","C13","C14","C15","C16","C17","C18","C19","C20"]:
    NOT_APPLICABLE.setdefault(_p, "check not built yet in this session (planned, see DESIGN.md section 5)")

