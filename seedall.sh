#!/bin/bash
# Runs every stored seeded change against the quick check of its property (scratch worktree each time)
# and writes /verif/seeded/RESULTS.md. rc=1: caught (VIOLATION), 0: missed, 2: inconclusive, 3: patch does not apply.
out=/verif/seeded/RESULTS.md
echo "| seed | property | result |" > $out.tmp
echo "|---|---|---|" >> $out.tmp
for d in /verif/seeded/C*/; do
  name=$(basename $d); id=${name%%-*}
  res=$(/verif/seedtest.sh $id $d/patch.diff 2>&1 | tail -1)
  rc=${res##*rc=}
  case $rc in 1) r="caught";; 0) r="MISSED";; 2) r="inconclusive";; *) r="patch does not apply (rc=$rc)";; esac
  echo "| $name | $id | $r |" >> $out.tmp
  echo "$name $r"
done
mv $out.tmp $out
