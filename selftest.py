#!/usr/bin/env python3
"""Mutation smoke test (manual tool, not a registered check).
usage: selftest.py <PROP> <tier> <file> <old> <new>      one textual mutation
       selftest.py <PROP> <tier> --patch <diff>
Builds a scratch worktree of /repo under /tmp, mutates it, runs the property
check against it (VERIF_REPO), prints rc and removes the worktree."""
import os, subprocess, sys
prop, tier = sys.argv[1], sys.argv[2]
wt = f"/tmp/selftest_{os.getpid()}"
subprocess.run(["git", "-C", "/repo", "worktree", "add", "--detach", "-q", wt, "HEAD"], check=True)
try:
    if sys.argv[3] == "--patch":
        subprocess.run(["git", "apply", sys.argv[4]], cwd=wt, check=True)
    else:
        f, old, new = sys.argv[3:6]
        p = os.path.join(wt, f)
        s = open(p).read()
        if s.count(old) != 1:
            print(f"mutation site not unique: {s.count(old)} occurrences"); sys.exit(3)
        open(p, "w").write(s.replace(old, new))
    env = dict(os.environ); env["VERIF_REPO"] = wt
    r = subprocess.run(["python3", "/verif/check.py", prop, "--tier", tier], env=env)
    print(f"selftest {prop}: rc={r.returncode}")
    sys.exit(r.returncode)
finally:
    subprocess.run(["git", "-C", "/repo", "worktree", "remove", "--force", wt])
