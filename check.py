#!/usr/bin/env python3
"""Property check driver: runs the symgo harnesses registered for a property,
replays every solver counterexample natively against the real build, applies
the known-findings file, writes /verif/evidence/<id>.json.

usage: check.py <ID> [--tier quick|thorough]      exit 0 / 1 (VIOLATION) / 2 (INCONCLUSIVE)
       check.py --replay <replay.json>
"""
import json, os, subprocess, sys, time, hashlib, re, shutil, tempfile

VERIF = os.path.dirname(os.path.abspath(__file__))
REPO = os.environ.get("VERIF_REPO", "/repo")
# Output directory for evidence/ and replays/ (the registered commands use /verif itself; the seeded-change
# scripts point this elsewhere so that a run against a patched scratch tree never touches the real evidence).
OUTDIR = os.environ.get("VERIF_OUT", None)
SYMGO = os.path.join(VERIF, "bin", "symgo")
sys.path.insert(0, VERIF)
from props import PROPS  # noqa: E402


def goenv(module):
    env = dict(os.environ)
    env.update({"GOFLAGS": "-mod=mod", "GOPROXY": "off"})
    if module == "cmd/atlas":
        env.pop("GOTOOLCHAIN", None)
        env.pop("GOSUMDB", None)
    else:
        env.update({"GOSUMDB": "off", "GOTOOLCHAIN": "local"})
    return env


def ensure_symgo():
    src = os.path.join(VERIF, "symgo")
    newest = max(os.path.getmtime(os.path.join(src, f)) for f in os.listdir(src))
    if os.path.exists(SYMGO) and os.path.getmtime(SYMGO) >= newest:
        return
    os.makedirs(os.path.dirname(SYMGO), exist_ok=True)
    env = dict(os.environ)
    env.update({"GOFLAGS": "-mod=mod", "GOPROXY": "off", "GOSUMDB": "off", "GOTOOLCHAIN": "local"})
    subprocess.run(["go", "build", "-o", SYMGO, "."], cwd=src, env=env, check=True)


def harness_files(hdir):
    d = os.path.join(VERIF, "harness", hdir)
    return sorted(os.path.join(d, f) for f in os.listdir(d) if f.endswith(".go") and not f.endswith("_test.go"))


def load_known():
    out = []
    p = os.path.join(VERIF, "known_findings.jsonl")
    if os.path.exists(p):
        for line in open(p):
            line = line.strip()
            if line and not line.startswith("#"):
                out.append(json.loads(line))
    return out


# Export shims that the harness files of a directory need in another package (always overlaid
# together with that directory's harness files, so that the package compiles).
HDIR_XFILES = {
    "mysql": {"ariga.io/atlas/schemahcl": ["harness/x_schemahcl/zz_verif_export.go"]},
    "postgres": {"ariga.io/atlas/schemahcl": ["harness/x_schemahcl/zz_verif_export.go"]},
    "sqlite": {"ariga.io/atlas/schemahcl": ["harness/x_schemahcl/zz_verif_export.go"]},
    "migratelint": {"ariga.io/atlas/sql/sqlite": ["harness/x_sqlite/zz_verif_export_dev.go"]},
}


def run_cfg(prop, run):
    cfg = dict(PROPS[prop])
    for k in ("pkg", "hdir", "module", "xfiles", "initallow"):
        if k in run:
            cfg[k] = run[k]
    if "xfiles" not in cfg and cfg.get("hdir") in HDIR_XFILES:
        cfg["xfiles"] = HDIR_XFILES[cfg["hdir"]]
    return cfg


def run_symgo(prop, run, tier, known_keys):
    cfg = run_cfg(prop, run)
    moddir = os.path.join(REPO, cfg.get("module", "")) if cfg.get("module") else REPO
    outp = tempfile.mktemp(prefix="symgo_", suffix=".json", dir=os.path.join(VERIF, "scratch"))
    cmd = [SYMGO, "-dir", moddir, "-pkg", cfg["pkg"], "-harness", run["harness"], "-out", outp,
           "-workers", str(run.get("workers", 16))]
    for f in harness_files(cfg["hdir"]):
        cmd += ["-file", f]
    cmd += run.get("flags", [])
    if "-timelimit" not in run.get("flags", []):
        # no run may hang: past the limit the engine stops and the run is inconclusive (never a pass)
        cmd += ["-timelimit", run.get("timelimit", "20m" if tier == "quick" else "3h")]
    if tier == "thorough" and run.get("cross", True):
        cmd += ["-cross"]
    for k, v in run.get("stubs", {}).items():
        cmd += ["-stub", f"{k}={v}"]
    for ip, fs in cfg.get("xfiles", {}).items():
        for f in fs:
            cmd += ["-xfile", f"{ip}={os.path.join(VERIF, f)}"]
    if cfg.get("initallow"):
        cmd += ["-initallow", ",".join(cfg["initallow"])]
    env = goenv(cfg.get("module", ""))
    env["VERIF_KNOWN"] = ",".join(sorted(known_keys))
    t0 = time.time()
    res = None
    crashes = []
    for attempt in range(3):
        # an engine process that dies without writing its result (a crash of the tool, not a verdict) is
        # started again, at most twice; every crash is kept in the evidence (engine_crashes)
        p = subprocess.run(cmd, env=env, stdout=subprocess.PIPE, stderr=subprocess.STDOUT, text=True)
        if os.path.exists(outp):
            res = json.load(open(outp))
            os.unlink(outp)
            break
        crashes.append((p.stdout[:1500] + "\n...\n" + p.stdout[-1500:]) if len(p.stdout) > 3000 else p.stdout)
        sys.stderr.write("ENGINE-CRASH %s attempt %d rc=%s\n%s\n" % (run["harness"], attempt + 1, p.returncode, crashes[-1][:1500]))
    if res is not None and crashes:
        res["engine_crashes"] = crashes
    if res is None:
        res = {"harness": run["harness"], "status": "inconclusive", "stop_reason": "symgo produced no result: " + p.stdout[:1000] + " ... " + p.stdout[-2000:],
               "paths": 0, "queries": 0}
    res["cmd_wall_s"] = time.time() - t0
    res["log"] = "\n".join(l for l in p.stdout.splitlines() if not l.startswith("WARNING"))[-4000:]
    return res


TEST_TMPL = """package %(pkgname)s

import (
	veriftesting "testing"
	veriffmt2 "fmt"
)

func TestVerifReplay(t *veriftesting.T) {
	defer func() {
		if r := recover(); r != nil {
			if s, ok := r.(verifStop); ok {
				if s.msg == "assert" {
					t.Fail()
				}
				return
			}
			veriffmt2.Printf("VERIF-PANIC: %%v\\n", r)
			t.Fail()
		}
	}()
	%(harness)s()
	if verifFailures > 0 {
		t.Fail()
	}
	veriffmt2.Println("VERIF-COMPLETED")
}
"""


class Replayer:
    """Builds one native test binary per (property, harness) and runs models through it."""

    def __init__(self, prop):
        self.prop = prop
        self.cfg = PROPS[prop]
        self.bins = {}
        self.tmp = tempfile.mkdtemp(prefix="replay_", dir=os.path.join(VERIF, "scratch"))

    def close(self):
        shutil.rmtree(self.tmp, ignore_errors=True)

    def build(self, harness, cfg=None):
        if harness in self.bins:
            return self.bins[harness]
        cfg = cfg or self.cfg
        moddir = os.path.join(REPO, cfg.get("module", "")) if cfg.get("module") else REPO
        env = goenv(cfg.get("module", ""))
        # package directory relative to module
        out = subprocess.run(["go", "list", "-f", "{{.Dir}} {{.Name}}", cfg["pkg"]], cwd=moddir, env=env,
                             stdout=subprocess.PIPE, stderr=subprocess.PIPE, text=True)
        line = [l for l in out.stdout.splitlines() if l and not l.startswith("WARNING")]
        if not line:
            raise RuntimeError("go list failed: " + out.stderr)
        pkgdir, pkgname = line[-1].split()
        testfile = os.path.join(self.tmp, f"zz_verif_replay_{harness}_test.go")
        open(testfile, "w").write(TEST_TMPL % {"pkgname": pkgname, "harness": harness})
        repl = {os.path.join(pkgdir, "zz_verif_replay_test.go"): testfile}
        for f in harness_files(cfg["hdir"]):
            repl[os.path.join(pkgdir, os.path.basename(f))] = f
        for ip, fs in cfg.get("xfiles", {}).items():
            o2 = subprocess.run(["go", "list", "-f", "{{.Dir}}", ip], cwd=moddir, env=env, stdout=subprocess.PIPE, stderr=subprocess.PIPE, text=True)
            l2 = [l for l in o2.stdout.splitlines() if l and not l.startswith("WARNING")]
            if not l2:
                raise RuntimeError("go list failed for xfile package: " + o2.stderr)
            for f in fs:
                repl[os.path.join(l2[-1], os.path.basename(f))] = os.path.join(VERIF, f)
        ov = os.path.join(self.tmp, f"overlay_{harness}.json")
        json.dump({"Replace": repl}, open(ov, "w"))
        binp = os.path.join(self.tmp, f"replay_{harness}.test")
        p = subprocess.run(["go", "test", "-vet=off", "-c", "-o", binp, "-overlay", ov, cfg["pkg"]],
                           cwd=moddir, env=env, stdout=subprocess.PIPE, stderr=subprocess.STDOUT, text=True)
        if p.returncode != 0 or not os.path.exists(binp):
            raise RuntimeError("native replay build failed:\n" + p.stdout[-3000:])
        self.bins[harness] = (binp, pkgdir)
        return self.bins[harness]

    def run(self, harness, model, choices, known_keys, cfg=None):
        binp, pkgdir = self.build(harness, cfg)
        mf = os.path.join(self.tmp, "model_%s.json" % hashlib.sha1(json.dumps([model, choices], sort_keys=True).encode()).hexdigest()[:12])
        json.dump({"model": model, "choices": choices}, open(mf, "w"))
        env = dict(os.environ)
        env["VERIF_REPLAY"] = mf
        env["VERIF_KNOWN"] = ",".join(sorted(known_keys))
        try:
            p = subprocess.run([binp, "-test.run", "^TestVerifReplay$", "-test.count=1", "-test.timeout=120s"], cwd=pkgdir, env=env,
                               stdout=subprocess.PIPE, stderr=subprocess.STDOUT, text=True, timeout=180)
            out = p.stdout
        except subprocess.TimeoutExpired:
            out = "VERIF-TIMEOUT"
        return out


def classify_replay(out, viol):
    """Does the native run reproduce the violation?"""
    if viol["kind"] == "panic":
        msg = viol["msg"][len("panic: "):] if viol["msg"].startswith("panic: ") else viol["msg"]
        if ("VERIF-PANIC:" in out or "panic:" in out) and (msg in out or "sym(" in msg or "sstr[" in msg):
            return True
        return False
    want = "VERIF-ASSERT-FAIL: " + viol["msg"]
    return want in out


def observed_lines(out):
    return [l[len("VERIF-OBSERVE "):] for l in out.splitlines() if l.startswith("VERIF-OBSERVE ")]


def check(prop, tier):
    t0 = time.time()
    os.makedirs(os.path.join(VERIF, "scratch"), exist_ok=True)
    os.makedirs(os.path.join(OUTDIR or VERIF, "evidence"), exist_ok=True)
    ensure_symgo()
    cfg = PROPS[prop]
    known = [k for k in load_known() if k["property"] == prop and k.get("status") == "known"]
    known_keys = {k["key"] for k in known}
    runs = cfg["runs"][tier]
    if os.environ.get("VERIF_ONLY") and os.environ.get("VERIF_OUT"):
        # development aid (scratch output only): run the families whose harness name contains the filter
        runs = [r for r in runs if os.environ["VERIF_ONLY"] in r["harness"]]
    results, new_viol, inconclusive = [], [], []
    known_seen = {}
    validated = 0
    shutil.rmtree(os.path.join(OUTDIR or VERIF, "replays", prop), ignore_errors=True)
    rp = Replayer(prop)
    try:
        for run in runs:
            if new_viol:
                # a replay-confirmed violation decides the check: the remaining families are not needed for the
                # verdict (on a broken tree they can be arbitrarily slow), so they are left out and named
                print(f"NOTE: {run['harness']} not run: a violation is already confirmed")
                continue
            res = run_symgo(prop, run, tier, known_keys)
            results.append(res)
            role = run.get("role", "main")
            st = res.get("status")
            if role == "witness":
                # a witness run looks for a listed finding: a (replayed) violation is expected
                key = run["key"]
                if key not in known_keys:
                    continue
                hit = None
                for v in res.get("violations") or []:
                    out = rp.run(run["harness"], v["model"], v["choices"], known_keys, run_cfg(prop, run))
                    if classify_replay(out, v):
                        hit = v
                        break
                if hit is not None:
                    known_seen[key] = hit
                elif st == "inconclusive":
                    inconclusive.append(f"{run['harness']}: {res.get('stop_reason') or res.get('abort_reasons')}")
                continue
            if st == "inconclusive":
                inconclusive.append(f"{run['harness']}: {res.get('stop_reason') or res.get('abort_reasons')}")
            for lbl in run.get("reach", []):
                if not (res.get("reached") or {}).get(lbl):
                    inconclusive.append(f"{run['harness']}: vacuity guard: label {lbl!r} never reached")
            for v in res.get("violations") or []:
                ok = False
                # schedule-dependent properties (map iteration order) are replayed several times natively
                for _ in range(1 + cfg.get("replay_retries", 0)):
                    out = rp.run(run["harness"], v["model"], v["choices"], known_keys, run_cfg(prop, run))
                    ok = classify_replay(out, v)
                    if ok:
                        break
                v["confirmed"] = ok
                v["replay_out"] = out[-1500:]
                if ok:
                    new_viol.append((run, v))
                else:
                    inconclusive.append(f"{run['harness']}: counterexample did not reproduce natively ({v['msg']}): encoder/stub bug")
            # encoder validation: sampled path models must complete natively with equal observations
            if st in ("ok", "violation"):
                nval = run.get("validate", 2 if tier == "quick" else 5)
                for s in (res.get("samples") or [])[:nval]:
                    out = rp.run(run["harness"], s.get("model") or {}, s.get("choices") or {}, known_keys, run_cfg(prop, run))
                    if "VERIF-COMPLETED" in out and "VERIF-ASSERT-FAIL" not in out and observed_lines(out) == (s.get("observed") or []):
                        validated += 1
                    elif "VERIF-ASSERT-FAIL" in out and "VERIF-ASSUME-FAIL" not in out and run.get("native_asserts"):
                        # The engine found this path passing (model store / stubs), but the same solver-generated input fails an
                        # assertion of the harness on the real code (real CLI, real store): that is a violation of the property on
                        # the real system, reproduced natively. Only for runs whose native environment is the real thing.
                        msg = [l for l in out.splitlines() if l.startswith("VERIF-ASSERT-FAIL")][0][len("VERIF-ASSERT-FAIL:"):].strip()
                        v = {"kind": "assert", "msg": msg + " (real system; the engine's model passes)", "model": s.get("model") or {},
                             "choices": s.get("choices") or {}, "where": "native validation of a path model", "confirmed": True,
                             "replay_out": out[-1500:]}
                        new_viol.append((run, v))
                    elif "VERIF-ASSUME-FAIL" in out:
                        inconclusive.append(f"{run['harness']}: sampled path model violates an assumption natively")
                    else:
                        inconclusive.append(f"{run['harness']}: sampled path diverges natively: engine observed {s.get('observed')} native {observed_lines(out)} tail={out[-300:]!r}")
    finally:
        rp.close()
    # write replays for new violations
    lines = []
    rc = 0
    for key in sorted(known_seen):
        e = [k for k in known if k["key"] == key][0]
        lines.append(f"KNOWN-FINDING: property={prop} {e['what']}")
    if new_viol:
        rdir = os.path.join(OUTDIR or VERIF, "replays", prop)
        os.makedirs(rdir, exist_ok=True)
        for run, v in new_viol:
            h = hashlib.sha1(json.dumps([run["harness"], v["msg"], v["model"], v["choices"]], sort_keys=True).encode()).hexdigest()[:12]
            path = os.path.join(rdir, h + ".json")
            json.dump({"property": prop, "harness": run["harness"], "kind": v["kind"], "msg": v["msg"], "where": v.get("where"),
                       "model": v["model"], "choices": v["choices"], "native_output": v.get("replay_out")}, open(path, "w"), indent=1)
            lines.append(f"VIOLATION property={prop} replay={path}")
        rc = 1
    elif inconclusive:
        rc = 2
    write_evidence(prop, tier, cfg, results, known_seen, new_viol, inconclusive, validated, time.time() - t0)
    for l in lines:
        print(l)
    for m in inconclusive[:10]:
        print("INCONCLUSIVE:", m)
    tot = sum(r.get("paths", 0) for r in results)
    print(f"{prop} {tier}: runs={len(results)} paths={tot} queries={sum(r.get('queries', 0) for r in results)} "
          f"validated_native={validated} violations={len(new_viol)} known={len(known_seen)} wall={time.time() - t0:.1f}s rc={rc}")
    return rc


def write_evidence(prop, tier, cfg, results, known_seen, new_viol, inconclusive, validated, wall):
    samples = []
    for r in results:
        for s in (r.get("samples") or [])[:2]:
            samples.append({"harness": r["harness"], "path_decisions": s.get("decisions"), "model": s.get("model"),
                            "choices": s.get("choices"), "observed": s.get("observed")})
    if not samples:
        samples = [{"harness": r.get("harness"), "note": "no completed path sampled"} for r in results[:1]]
    funcs = sorted({f for r in results for f in (r.get("functions_encoded") or [])})
    ev = {
        "property_id": prop, "tier": tier, "seed": int(os.environ.get("VERIF_SEED", "0") or 0),
        "level": "model_checking",
        "coverage": {
            "states": sum(r.get("paths", 0) for r in results),
            "transitions": sum(r.get("forks", 0) + r.get("paths", 0) for r in results),
            "traces_validated_against_impl": validated,
            "samples": samples[:8],
            "exhaustive": not inconclusive,
            "explanation": "states = completed symbolic paths (each a class of inputs), transitions = explored branch decisions; "
                           "every path assertion is discharged by the SMT solver within the stated bounds",
            "functions_encoded": funcs,
            "intrinsics": sorted({f for r in results for f in (r.get("intrinsics") or [])}),
            "host_executed_on_concrete_args": sorted({f for r in results for f in (r.get("natives") or [])}),
            "stubs": sorted({f for r in results for f in (r.get("stubs") or [])}) + cfg.get("stubs_note", []),
            "bounds": cfg.get("bounds", {}).get(tier, ""),
            "outside_claim": cfg.get("outside", ""),
            "runs": [{k: r.get(k) for k in ("harness", "status", "paths", "pruned", "aborted", "abort_reasons", "forks", "steps", "max_depth",
                                            "queries", "queries_sat", "queries_unsat", "queries_unknown", "assert_queries", "asserts_checked",
                                            "domain_decided", "model_decided", "solver_time_s", "wall_s", "reached", "cross_checked",
                                            "cross_disagree", "stop_reason")} for r in results],
            "queries": {"total": sum(r.get("queries", 0) for r in results),
                        "assertion": sum(r.get("assert_queries", 0) for r in results),
                        "sat": sum(r.get("queries_sat", 0) for r in results),
                        "unsat": sum(r.get("queries_unsat", 0) for r in results),
                        "unknown": sum(r.get("queries_unknown", 0) for r in results)},
            "solver_time_s": round(sum(r.get("solver_time_s", 0) for r in results), 2),
            "aborted": sum(r.get("aborted", 0) for r in results),
            "cross_solver_checked": sum(r.get("cross_checked", 0) for r in results),
            "cross_solver_disagreements": sum(r.get("cross_disagree", 0) for r in results),
            "known_findings_reproduced": sorted(known_seen),
            "inconclusive": inconclusive[:20],
        },
        "assumptions": cfg.get("assumptions", []),
        "wall_s": round(wall, 2),
        "violations": len(new_viol),
    }
    json.dump(ev, open(os.path.join(OUTDIR or VERIF, "evidence", prop + ".json"), "w"), indent=1)


def replay(path):
    ensure_symgo()
    os.makedirs(os.path.join(VERIF, "scratch"), exist_ok=True)
    r = json.load(open(path))
    known_keys = {k["key"] for k in load_known() if k["property"] == r["property"] and k.get("status") == "known"}
    rp = Replayer(r["property"])
    try:
        out = rp.run(r["harness"], r["model"], r["choices"], known_keys)
    finally:
        rp.close()
    print(out)
    ok = classify_replay(out, r)
    print("REPRODUCED" if ok else "NOT REPRODUCED")
    return 1 if ok else 0


if __name__ == "__main__":
    args = sys.argv[1:]
    if args and args[0] == "--replay":
        sys.exit(replay(args[1]))
    tier = os.environ.get("VERIF_TIER", "quick")
    if "--tier" in args:
        tier = args[args.index("--tier") + 1]
    sys.exit(check(args[0], tier))
