#!/bin/bash
# usage: seedtest.sh <ID> <patch> [tier]  -- applies a seeded change to /repo, runs the check, reverts.
id=$1; patch=$2; tier=${3:-quick}
git -C /repo status --short | grep -q . && { echo "repo not clean"; exit 3; }
git -C /repo apply "$patch" || exit 3
python3 /verif/check.py $id --tier $tier 2>&1 | grep -v "^KNOWN-FINDING" | cut -c1-200 | tail -4
rc=${PIPESTATUS[0]}
git -C /repo checkout -- .
echo "seedtest $id $(basename $(dirname $(dirname $patch))): rc=$rc"
