#!/bin/bash
# usage: seedtest.sh <ID> <patch> [tier]
# Runs the check of property <ID> against a scratch worktree of /repo with the seeded change applied
# (VERIF_REPO), writing evidence/replays to a scratch directory (VERIF_OUT): /repo and /verif/evidence
# are never touched. rc=1 means the check reported a violation (caught), 0 missed, 2 inconclusive.
id=$1; patch=$2; tier=${3:-quick}
wt=/tmp/seedrepo_$$
git -C /repo worktree add --detach $wt HEAD >/dev/null 2>&1 || exit 3
git -C $wt apply "$patch" || { git -C /repo worktree remove --force $wt; exit 3; }
out=/tmp/seedout_$$; mkdir -p $out
VERIF_ONLY=$VERIF_ONLY VERIF_REPO=$wt VERIF_OUT=$out python3 /verif/check.py $id --tier $tier 2>&1 | grep -v "^KNOWN-FINDING" | cut -c1-220 | tail -4
rc=${PIPESTATUS[0]}
git -C /repo worktree remove --force $wt; rm -rf $out
echo "seedtest $id $(basename $(dirname $(dirname $patch))): rc=$rc"
