package main

// Value representation (adapted from golang.org/x/tools/go/ssa/interp, BSD
// licence): all values are boxed in `value`.
//
//	bool, intN, uintN, floatN, string   concrete scalars
//	symv                                symbolic scalar (Bool or BV8..64)
//	*sstr                               string with at least one symbolic byte
//	*omap                               maps (insertion ordered => deterministic)
//	[]value                             slices
//	iface, structure, array, *value     interfaces, structs, arrays, pointers
//	*ssa.Function, *ssa.Builtin, *closure
//	tuple, iter
//	native                              opaque host value (e.g. *regexp.Regexp)

import (
	"bytes"
	"fmt"
	"go/types"
	"strings"
	"unsafe"

	"golang.org/x/tools/go/ssa"
)

type value interface{}

type tuple []value

type array []value

type iface struct {
	t types.Type // never an "untyped" type
	v value
}

type structure []value

type closure struct {
	Fn  *ssa.Function
	Env []value
}

type bad struct{}

// symv is a symbolic scalar. k is the Go basic kind it stands for.
type symv struct {
	t *Term
	k types.BasicKind
}

// sstr is a string some of whose bytes are symbolic. Elements are uint8 or symv.
type sstr struct {
	b []value
}

// native wraps an opaque host value.
type native struct {
	x any
}

type iter interface {
	next(fr *frame) tuple
}

// ---- kinds -----------------------------------------------------------------

func kindWidth(k types.BasicKind) uint8 {
	switch k {
	case types.Bool, types.UntypedBool:
		return 0
	case types.Int8, types.Uint8:
		return 8
	case types.Int16, types.Uint16:
		return 16
	case types.Int32, types.Uint32, types.UntypedRune:
		return 32
	case types.Int, types.Int64, types.Uint, types.Uint64, types.Uintptr, types.UntypedInt:
		return 64
	}
	panic(unsupported("symbolic value of kind %v", k))
}

func kindSigned(k types.BasicKind) bool {
	switch k {
	case types.Int, types.Int8, types.Int16, types.Int32, types.Int64, types.UntypedInt, types.UntypedRune:
		return true
	}
	return false
}

func basicKind(t types.Type) (types.BasicKind, bool) {
	if b, ok := t.Underlying().(*types.Basic); ok {
		return b.Kind(), true
	}
	return 0, false
}

// intBits returns the raw bits of a concrete integer value.
func intBits(x value) (uint64, types.BasicKind, bool) {
	switch x := x.(type) {
	case int:
		return uint64(x), types.Int, true
	case int8:
		return uint64(x), types.Int8, true
	case int16:
		return uint64(x), types.Int16, true
	case int32:
		return uint64(x), types.Int32, true
	case int64:
		return uint64(x), types.Int64, true
	case uint:
		return uint64(x), types.Uint, true
	case uint8:
		return uint64(x), types.Uint8, true
	case uint16:
		return uint64(x), types.Uint16, true
	case uint32:
		return uint64(x), types.Uint32, true
	case uint64:
		return x, types.Uint64, true
	case uintptr:
		return uint64(x), types.Uintptr, true
	}
	return 0, 0, false
}

// mkInt builds the concrete Go value of kind k from raw bits.
func mkInt(k types.BasicKind, bits uint64) value {
	switch k {
	case types.Int, types.UntypedInt:
		return int(bits)
	case types.Int8:
		return int8(bits)
	case types.Int16:
		return int16(bits)
	case types.Int32, types.UntypedRune:
		return int32(bits)
	case types.Int64:
		return int64(bits)
	case types.Uint:
		return uint(bits)
	case types.Uint8:
		return uint8(bits)
	case types.Uint16:
		return uint16(bits)
	case types.Uint32:
		return uint32(bits)
	case types.Uint64:
		return bits
	case types.Uintptr:
		return uintptr(bits)
	case types.Bool, types.UntypedBool:
		return bits != 0
	}
	panic(fmt.Sprintf("mkInt: bad kind %v", k))
}

// termOf returns the term for a scalar value (concrete or symbolic).
func termOf(f *TermFactory, x value) (*Term, types.BasicKind, bool) {
	switch x := x.(type) {
	case symv:
		return x.t, x.k, true
	case bool:
		return f.Bool(x), types.Bool, true
	}
	if b, k, ok := intBits(x); ok {
		return f.Const(kindWidth(k), b), k, true
	}
	return nil, 0, false
}

// mkScalar wraps a term as a value, folding constants to concrete values.
func mkScalar(t *Term, k types.BasicKind) value {
	if t.IsConst() {
		return mkInt(k, uint64(sext64(t.val, maxw(t.w))))
	}
	return symv{t, k}
}

func maxw(w uint8) uint8 {
	if w == 0 {
		return 64
	}
	return w
}

func isSym(x value) bool {
	switch x.(type) {
	case symv, *sstr:
		return true
	}
	return false
}

// ---- strings ---------------------------------------------------------------

func strLen(x value) int {
	switch x := x.(type) {
	case string:
		return len(x)
	case *sstr:
		return len(x.b)
	}
	panic(fmt.Sprintf("strLen: %T", x))
}

func strAt(x value, i int) value {
	switch x := x.(type) {
	case string:
		return x[i]
	case *sstr:
		return x.b[i]
	}
	panic(fmt.Sprintf("strAt: %T", x))
}

func strBytes(x value) []value {
	switch x := x.(type) {
	case string:
		out := make([]value, len(x))
		for i := 0; i < len(x); i++ {
			out[i] = x[i]
		}
		return out
	case *sstr:
		return x.b
	}
	panic(fmt.Sprintf("strBytes: %T", x))
}

// mkStr normalises a byte list to string or *sstr. The slice is copied.
func mkStr(b []value) value {
	allc := true
	for _, e := range b {
		if _, ok := e.(uint8); !ok {
			allc = false
			break
		}
	}
	if allc {
		bs := make([]byte, len(b))
		for i, e := range b {
			bs[i] = e.(uint8)
		}
		return string(bs)
	}
	nb := make([]value, len(b))
	copy(nb, b)
	return &sstr{nb}
}

func strSlice(x value, l, h int) value {
	switch x := x.(type) {
	case string:
		return x[l:h]
	case *sstr:
		return mkStr(x.b[l:h])
	}
	panic(fmt.Sprintf("strSlice: %T", x))
}

func strConcat(x, y value) value {
	if xs, ok := x.(string); ok {
		if ys, ok := y.(string); ok {
			return xs + ys
		}
	}
	xb, yb := strBytes(x), strBytes(y)
	nb := make([]value, 0, len(xb)+len(yb))
	nb = append(nb, xb...)
	nb = append(nb, yb...)
	return mkStr(nb)
}

// byteTerm returns the BV8 term of a byte element.
func byteTerm(f *TermFactory, b value) *Term {
	switch b := b.(type) {
	case uint8:
		return f.Const(8, uint64(b))
	case symv:
		return b.t
	}
	panic(fmt.Sprintf("byteTerm: %T", b))
}

// strEqTerm builds the term for x == y over (possibly symbolic) strings.
func strEqTerm(f *TermFactory, x, y value) *Term {
	if xs, ok := x.(string); ok {
		if ys, ok := y.(string); ok {
			return f.Bool(xs == ys)
		}
	}
	if strLen(x) != strLen(y) {
		return f.False
	}
	r := f.True
	n := strLen(x)
	// concrete mismatches first
	for i := 0; i < n; i++ {
		a, b := strAt(x, i), strAt(y, i)
		ac, ok1 := a.(uint8)
		bc, ok2 := b.(uint8)
		if ok1 && ok2 && ac != bc {
			return f.False
		}
	}
	for i := 0; i < n; i++ {
		a, b := strAt(x, i), strAt(y, i)
		r = f.And(r, f.Eq(byteTerm(f, a), byteTerm(f, b)))
		if r == f.False {
			return r
		}
	}
	return r
}

// strLtTerm builds x < y (lexicographic, bytewise).
func strLtTerm(f *TermFactory, x, y value) *Term {
	if xs, ok := x.(string); ok {
		if ys, ok := y.(string); ok {
			return f.Bool(xs < ys)
		}
	}
	nx, ny := strLen(x), strLen(y)
	n := nx
	if ny < n {
		n = ny
	}
	// result when all of the first n bytes are equal
	r := f.Bool(nx < ny)
	for i := n - 1; i >= 0; i-- {
		a, b := byteTerm(f, strAt(x, i)), byteTerm(f, strAt(y, i))
		r = f.Ite(f.Bin(OpUlt, a, b), f.True, f.Ite(f.Eq(a, b), r, f.False))
	}
	return r
}

// ---- ordered map -------------------------------------------------------------

type omap struct {
	kt   types.Type
	keys []value
	vals []value
	idx  map[any]int // canonical key -> position; nil when a symbolic key is present
	sym  bool
}

func newOmap(kt types.Type) *omap {
	return &omap{kt: kt, idx: map[any]int{}}
}

func (m *omap) len() int {
	if m == nil {
		return 0
	}
	return len(m.keys)
}

// canonKey returns a comparable Go value identifying k, or false if k holds
// symbolic data.
func canonKey(k value) (any, bool) {
	switch k := k.(type) {
	case bool, int, int8, int16, int32, int64, uint, uint8, uint16, uint32, uint64, uintptr, float32, float64, string, complex64, complex128:
		return k, true
	case *value:
		return k, true
	case native:
		return k.x, true
	case symv, *sstr:
		return nil, false
	case iface:
		if k.t == nil {
			return "nil-iface", true
		}
		c, ok := canonKey(k.v)
		if !ok {
			return nil, false
		}
		return fmt.Sprintf("I<%s>%T:%v", k.t.String(), c, c), true
	case structure:
		var sb strings.Builder
		sb.WriteString("S{")
		for _, e := range k {
			c, ok := canonKey(e)
			if !ok {
				return nil, false
			}
			fmt.Fprintf(&sb, "%T:%v,", c, c)
		}
		sb.WriteString("}")
		return sb.String(), true
	case array:
		var sb strings.Builder
		sb.WriteString("A[")
		for _, e := range k {
			c, ok := canonKey(e)
			if !ok {
				return nil, false
			}
			fmt.Fprintf(&sb, "%T:%v,", c, c)
		}
		sb.WriteString("]")
		return sb.String(), true
	case *ssa.Function:
		return k, true
	case *omap:
		return k, true
	case rtype:
		return "rtype:" + k.t.String(), true
	case rvalue:
		panic(unsupported("reflect.Value as map key"))
	}
	panic(unsupported("map key of dynamic type %T", k))
}

func (m *omap) rebuild() {
	m.idx = map[any]int{}
	m.sym = false
	for i, k := range m.keys {
		c, ok := canonKey(k)
		if !ok {
			m.sym = true
			m.idx = nil
			return
		}
		m.idx[c] = i
	}
}

// find returns the position of key k or -1. It may fork the path when
// symbolic keys are involved.
func (m *omap) find(fr *frame, k value) int {
	if m == nil {
		return -1
	}
	c, ok := canonKey(k)
	if ok && !m.sym {
		if i, ok := m.idx[c]; ok {
			return i
		}
		return -1
	}
	for i, mk := range m.keys {
		if fr.decide(fr.eqValue(m.kt, mk, k)) {
			return i
		}
	}
	return -1
}

func (m *omap) insert(fr *frame, k, v value) {
	if i := m.find(fr, k); i >= 0 {
		m.vals[i] = v
		return
	}
	m.keys = append(m.keys, k)
	m.vals = append(m.vals, v)
	if !m.sym {
		if c, ok := canonKey(k); ok {
			m.idx[c] = len(m.keys) - 1
		} else {
			m.sym = true
			m.idx = nil
		}
	}
}

func (m *omap) delete(fr *frame, k value) {
	i := m.find(fr, k)
	if i < 0 {
		return
	}
	m.keys = append(m.keys[:i:i], m.keys[i+1:]...)
	m.vals = append(m.vals[:i:i], m.vals[i+1:]...)
	m.rebuild()
}

type mapIter struct {
	m    *omap
	keys []value
	i    int
}

func (it *mapIter) next(fr *frame) tuple {
	for it.i < len(it.keys) {
		k := it.keys[it.i]
		it.i++
		// entry may have been deleted during iteration
		if j := it.m.find(fr, k); j >= 0 {
			return tuple{true, k, it.m.vals[j]}
		}
	}
	return tuple{false, nil, nil}
}

// ---- load/store --------------------------------------------------------------

func load(T types.Type, addr *value) value {
	switch T := T.Underlying().(type) {
	case *types.Struct:
		v, ok := (*addr).(structure)
		if !ok {
			return *addr // native-backed struct
		}
		a := make(structure, len(v))
		for i := range a {
			a[i] = load(T.Field(i).Type(), &v[i])
		}
		return a
	case *types.Array:
		v := (*addr).(array)
		a := make(array, len(v))
		for i := range a {
			a[i] = load(T.Elem(), &v[i])
		}
		return a
	default:
		return *addr
	}
}

func store(T types.Type, addr *value, v value) {
	switch T := T.Underlying().(type) {
	case *types.Struct:
		lhs, ok1 := (*addr).(structure)
		rhs, ok2 := v.(structure)
		if !ok1 || !ok2 {
			*addr = v
			return
		}
		for i := range lhs {
			store(T.Field(i).Type(), &lhs[i], rhs[i])
		}
	case *types.Array:
		lhs := (*addr).(array)
		rhs := v.(array)
		for i := range lhs {
			store(T.Elem(), &lhs[i], rhs[i])
		}
	default:
		*addr = v
	}
}

// copyVal makes an unaliased copy of aggregate values.
func copyVal(v value) value {
	switch v := v.(type) {
	case structure:
		a := make(structure, len(v))
		for i := range v {
			a[i] = copyVal(v[i])
		}
		return a
	case array:
		a := make(array, len(v))
		for i := range v {
			a[i] = copyVal(v[i])
		}
		return a
	}
	return v
}

// zero returns a new "zero" value of the specified type.
func zero(t types.Type) value {
	switch t := t.(type) {
	case *types.Basic:
		if t.Kind() == types.UntypedNil {
			panic("untyped nil has no zero value")
		}
		if t.Info()&types.IsUntyped != 0 {
			t = types.Default(t).(*types.Basic)
		}
		switch t.Kind() {
		case types.Bool:
			return false
		case types.Float32:
			return float32(0)
		case types.Float64:
			return float64(0)
		case types.Complex64:
			return complex64(0)
		case types.Complex128:
			return complex128(0)
		case types.String:
			return ""
		case types.UnsafePointer:
			return unsafe.Pointer(nil)
		default:
			return mkInt(t.Kind(), 0)
		}
	case *types.Pointer:
		return (*value)(nil)
	case *types.Array:
		a := make(array, t.Len())
		for i := range a {
			a[i] = zero(t.Elem())
		}
		return a
	case *types.Named:
		if o := t.Obj(); o.Pkg() != nil && o.Pkg().Path() == "reflect" && o.Name() == "Value" {
			return rvalue{} // reflect.Value is modelled, not interpreted
		}
		return zero(t.Underlying())
	case *types.Alias:
		return zero(types.Unalias(t))
	case *types.Interface:
		return iface{}
	case *types.Slice:
		return []value(nil)
	case *types.Struct:
		s := make(structure, t.NumFields())
		for i := range s {
			s[i] = zero(t.Field(i).Type())
		}
		return s
	case *types.Tuple:
		if t.Len() == 1 {
			return zero(t.At(0).Type())
		}
		s := make(tuple, t.Len())
		for i := range s {
			s[i] = zero(t.At(i).Type())
		}
		return s
	case *types.Chan:
		return (*value)(nil)
	case *types.Map:
		return (*omap)(nil)
	case *types.Signature:
		return (*ssa.Function)(nil)
	case *types.TypeParam:
		panic(unsupported("zero value of type parameter %s", t))
	}
	panic(fmt.Sprint("zero: unexpected ", t))
}

// ---- printing ----------------------------------------------------------------

func writeValue(buf *bytes.Buffer, v value, depth int) {
	if depth > 4 {
		buf.WriteString("…")
		return
	}
	switch v := v.(type) {
	case nil, bool, int, int8, int16, int32, int64, uint, uint8, uint16, uint32, uint64, uintptr, float32, float64, complex64, complex128:
		fmt.Fprintf(buf, "%v", v)
	case string:
		fmt.Fprintf(buf, "%q", v)
	case symv:
		fmt.Fprintf(buf, "sym(%s)", v.t)
	case *sstr:
		buf.WriteString("sstr[")
		for i, e := range v.b {
			if i > 0 {
				buf.WriteByte(' ')
			}
			if c, ok := e.(uint8); ok {
				fmt.Fprintf(buf, "%q", rune(c))
			} else {
				writeValue(buf, e, depth+1)
			}
		}
		buf.WriteString("]")
	case *omap:
		buf.WriteString("map[")
		if v != nil {
			for i, k := range v.keys {
				if i > 0 {
					buf.WriteByte(' ')
				}
				writeValue(buf, k, depth+1)
				buf.WriteString(":")
				writeValue(buf, v.vals[i], depth+1)
			}
		}
		buf.WriteString("]")
	case *value:
		if v == nil {
			buf.WriteString("<nil>")
		} else {
			buf.WriteString("&")
			writeValue(buf, *v, depth+1)
		}
	case iface:
		if v.t == nil {
			buf.WriteString("nil")
			return
		}
		fmt.Fprintf(buf, "(%s, ", v.t)
		writeValue(buf, v.v, depth+1)
		buf.WriteString(")")
	case structure:
		buf.WriteString("{")
		for i, e := range v {
			if i > 0 {
				buf.WriteString(" ")
			}
			writeValue(buf, e, depth+1)
		}
		buf.WriteString("}")
	case array:
		buf.WriteString("[")
		for i, e := range v {
			if i > 0 {
				buf.WriteString(" ")
			}
			writeValue(buf, e, depth+1)
		}
		buf.WriteString("]")
	case []value:
		buf.WriteString("[")
		for i, e := range v {
			if i > 0 {
				buf.WriteString(" ")
			}
			writeValue(buf, e, depth+1)
		}
		buf.WriteString("]")
	case *ssa.Function:
		if v == nil {
			buf.WriteString("nil-func")
		} else {
			buf.WriteString(v.String())
		}
	case *ssa.Builtin:
		buf.WriteString(v.Name())
	case *closure:
		buf.WriteString("closure:" + v.Fn.String())
	case rtype:
		buf.WriteString(v.t.String())
	case tuple:
		buf.WriteString("(")
		for i, e := range v {
			if i > 0 {
				buf.WriteString(", ")
			}
			writeValue(buf, e, depth+1)
		}
		buf.WriteString(")")
	case native:
		fmt.Fprintf(buf, "native<%T>", v.x)
	default:
		fmt.Fprintf(buf, "<%T>", v)
	}
}

func toString(v value) string {
	var b bytes.Buffer
	writeValue(&b, v, 0)
	return b.String()
}

// rtype is the interpreter's implementation of reflect.Type.
type rtype struct {
	t types.Type
}
