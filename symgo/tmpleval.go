package main

// Evaluation of text/template trees (parsed by the real package) over
// interpreter values, so that templates can be run on data holding symbolic
// strings and with FuncMaps of interpreted functions. Covers the constructs
// used by Atlas' formatters: text, actions, if / with / range (+else),
// variables, field and method chains, pipelines, printf / println / print /
// slice / or / and / not / len / index / eq / ne, and FuncMap functions.

import (
	"fmt"
	"go/types"
	"strings"
	"text/template"
	"text/template/parse"

	"golang.org/x/tools/go/ssa"
)

// tval is a typed template value.
type tval struct {
	t types.Type
	v value
}

type tmplState struct {
	fr   *frame
	tmpl *template.Template
	out  []value // output bytes
	vars []tmplVar
	err  value // error returned by a function (iface) or nil
}

type tmplVar struct {
	name string
	val  tval
}

type tmplError struct{ err value }

func (s *tmplState) fail(format string, args ...any) {
	panic(unsupported("template: "+format, args...))
}

func (s *tmplState) funcs() map[string]value {
	m := map[string]value{}
	// FuncMaps are registered per template object; associated templates share them.
	tmplMu.Lock()
	defer tmplMu.Unlock()
	for t, info := range tmplInfos {
		if t == s.tmpl || sameTemplateSet(t, s.tmpl) {
			for k, v := range info.funcs {
				m[k] = v
			}
		}
	}
	return m
}

func sameTemplateSet(a, b *template.Template) bool {
	for _, t := range b.Templates() {
		if t == a {
			return true
		}
	}
	for _, t := range a.Templates() {
		if t == b {
			return true
		}
	}
	return false
}

func (s *tmplState) write(v value) {
	s.out = append(s.out, strBytes(v)...)
}

func (s *tmplState) setVar(name string, v tval) {
	for i := len(s.vars) - 1; i >= 0; i-- {
		if s.vars[i].name == name {
			s.vars[i].val = v
			return
		}
	}
	s.fail("undefined variable %s", name)
}

func (s *tmplState) varValue(name string) tval {
	for i := len(s.vars) - 1; i >= 0; i-- {
		if s.vars[i].name == name {
			return s.vars[i].val
		}
	}
	s.fail("undefined variable %s", name)
	return tval{}
}

// indirect unwraps interfaces.
func indirectT(x tval) tval {
	for {
		it, ok := x.v.(iface)
		if !ok {
			return x
		}
		if it.t == nil {
			return tval{nil, nil}
		}
		x = tval{it.t, it.v}
	}
}

func (s *tmplState) truth(x tval) bool {
	x = indirectT(x)
	if x.t == nil {
		return false
	}
	switch v := x.v.(type) {
	case bool:
		return v
	case symv:
		if v.t.w == 0 {
			return s.fr.i.p.Branch(v.t)
		}
		return s.fr.i.p.Branch(s.fr.f().Not(s.fr.f().Eq(v.t, s.fr.f().Const(v.t.w, 0))))
	case string:
		return len(v) > 0
	case *sstr:
		return len(v.b) > 0
	case []value:
		return len(v) > 0
	case *omap:
		return v.len() > 0
	case *value:
		return v != nil
	case *ssa.Function:
		return v != nil
	case *closure:
		return v != nil
	case structure, array, native:
		return true
	case float64:
		return v != 0
	}
	if b, _, ok := intBits(x.v); ok {
		return b != 0
	}
	s.fail("truth of %T", x.v)
	return false
}

func (s *tmplState) walk(dot tval, node parse.Node) {
	switch n := node.(type) {
	case *parse.ListNode:
		for _, c := range n.Nodes {
			s.walk(dot, c)
		}
	case *parse.TextNode:
		s.write(string(n.Text))
	case *parse.ActionNode:
		v := s.evalPipeline(dot, n.Pipe)
		if len(n.Pipe.Decl) == 0 {
			s.print(v)
		}
	case *parse.IfNode:
		s.walkIfOrWith(parse.NodeIf, dot, n.Pipe, n.List, n.ElseList)
	case *parse.WithNode:
		s.walkIfOrWith(parse.NodeWith, dot, n.Pipe, n.List, n.ElseList)
	case *parse.RangeNode:
		s.walkRange(dot, n)
	case *parse.CommentNode:
	default:
		s.fail("node %s", node.Type())
	}
}

func (s *tmplState) walkIfOrWith(typ parse.NodeType, dot tval, pipe *parse.PipeNode, list, elseList *parse.ListNode) {
	mark := len(s.vars)
	defer func() { s.vars = s.vars[:mark] }()
	v := s.evalPipeline(dot, pipe)
	if s.truth(v) {
		if typ == parse.NodeWith {
			s.walk(v, list)
		} else {
			s.walk(dot, list)
		}
	} else if elseList != nil {
		s.walk(dot, elseList)
	}
}

func (s *tmplState) walkRange(dot tval, r *parse.RangeNode) {
	mark := len(s.vars)
	defer func() { s.vars = s.vars[:mark] }()
	v := indirectT(s.evalPipeline(dot, r.Pipe))
	mark2 := len(s.vars)
	one := func(idx value, elem tval) {
		if len(r.Pipe.Decl) > 0 {
			if r.Pipe.IsAssign {
				if len(r.Pipe.Decl) > 1 {
					s.setVar(r.Pipe.Decl[0].Ident[0], tval{types.Typ[types.Int], idx})
				} else {
					s.setVar(r.Pipe.Decl[0].Ident[0], elem)
				}
			} else {
				s.vars[mark2-len(r.Pipe.Decl)+len(r.Pipe.Decl)-1].val = elem
				if len(r.Pipe.Decl) > 1 {
					s.vars[mark2-len(r.Pipe.Decl)].val = tval{types.Typ[types.Int], idx}
				}
			}
		}
		s.walk(elem, r.List)
		s.vars = s.vars[:mark2]
	}
	n := 0
	if v.t != nil {
		switch u := v.t.Underlying().(type) {
		case *types.Slice:
			sl := v.v.([]value)
			n = len(sl)
			for k, e := range sl {
				one(k, tval{u.Elem(), e})
			}
		case *types.Array:
			sl := v.v.(array)
			n = len(sl)
			for k, e := range sl {
				one(k, tval{u.Elem(), e})
			}
		default:
			s.fail("range over %s", v.t)
		}
	}
	if n == 0 && r.ElseList != nil {
		s.walk(dot, r.ElseList)
	}
}

func (s *tmplState) print(v tval) {
	v = indirectT(v)
	if v.t == nil {
		s.write("<no value>")
		return
	}
	switch x := v.v.(type) {
	case string, *sstr:
		s.write(x)
		return
	}
	// errors / Stringers / numbers: format with %v semantics
	r, _ := s.fr.symSprintf("%v", []value{iface{t: v.t, v: v.v}})
	s.write(r)
}

func (s *tmplState) evalPipeline(dot tval, pipe *parse.PipeNode) tval {
	if pipe == nil {
		return tval{}
	}
	var v tval
	have := false
	for _, cmd := range pipe.Cmds {
		var final *tval
		if have {
			f := v
			final = &f
		}
		v = s.evalCommand(dot, cmd, final)
		have = true
	}
	for _, d := range pipe.Decl {
		if pipe.IsAssign {
			s.setVar(d.Ident[0], v)
		} else {
			s.vars = append(s.vars, tmplVar{d.Ident[0], v})
		}
	}
	return v
}

func (s *tmplState) evalCommand(dot tval, cmd *parse.CommandNode, final *tval) tval {
	first := cmd.Args[0]
	switch n := first.(type) {
	case *parse.FieldNode:
		return s.evalFieldChain(dot, dot, n.Ident, cmd.Args, final)
	case *parse.ChainNode:
		pipe := s.evalArg(dot, n.Node)
		return s.evalFieldChain(dot, pipe, n.Field, cmd.Args, final)
	case *parse.IdentifierNode:
		return s.evalFunction(dot, n.Ident, cmd.Args, final)
	case *parse.PipeNode:
		return s.evalPipeline(dot, n)
	case *parse.VariableNode:
		v := s.varValue(n.Ident[0])
		if len(n.Ident) == 1 {
			return v
		}
		return s.evalFieldChain(dot, v, n.Ident[1:], cmd.Args, final)
	}
	if len(cmd.Args) > 1 || final != nil {
		s.fail("can't give argument to non-function %s", first)
	}
	return s.evalArg(dot, first)
}

func (s *tmplState) evalArg(dot tval, n parse.Node) tval {
	switch n := n.(type) {
	case *parse.DotNode:
		return dot
	case *parse.NilNode:
		return tval{}
	case *parse.FieldNode:
		return s.evalFieldChain(dot, dot, n.Ident, []parse.Node{n}, nil)
	case *parse.VariableNode:
		v := s.varValue(n.Ident[0])
		if len(n.Ident) == 1 {
			return v
		}
		return s.evalFieldChain(dot, v, n.Ident[1:], []parse.Node{n}, nil)
	case *parse.PipeNode:
		return s.evalPipeline(dot, n)
	case *parse.IdentifierNode:
		return s.evalFunction(dot, n.Ident, []parse.Node{n}, nil)
	case *parse.ChainNode:
		pipe := s.evalArg(dot, n.Node)
		return s.evalFieldChain(dot, pipe, n.Field, []parse.Node{n}, nil)
	case *parse.StringNode:
		return tval{types.Typ[types.String], n.Text}
	case *parse.BoolNode:
		return tval{types.Typ[types.Bool], n.True}
	case *parse.NumberNode:
		if n.IsInt {
			return tval{types.Typ[types.Int], int(n.Int64)}
		}
		if n.IsFloat {
			return tval{types.Typ[types.Float64], n.Float64}
		}
	}
	s.fail("argument node %s", n)
	return tval{}
}

func (s *tmplState) evalFieldChain(dot, recv tval, ident []string, args []parse.Node, final *tval) tval {
	n := len(ident)
	for i := 0; i < n-1; i++ {
		recv = s.evalField(dot, ident[i], nil, nil, recv)
	}
	return s.evalField(dot, ident[n-1], args, final, recv)
}

// evalField resolves name on recv: a method, a struct field or a map key.
func (s *tmplState) evalField(dot tval, name string, args []parse.Node, final *tval, recv tval) tval {
	recv = indirectT(recv)
	if recv.t == nil {
		s.fail("nil pointer evaluating .%s", name)
	}
	i := s.fr.i
	// methods (on the value or its address)
	if m := i.findMethod(recv.t, name); m != nil {
		var argv []tval
		if len(args) > 1 {
			for _, a := range args[1:] {
				argv = append(argv, s.evalArg(dot, a))
			}
		}
		if final != nil {
			argv = append(argv, *final)
		}
		return s.callFunc(name, m, m.Signature, append([]tval{recv}, argv...))
	}
	t := recv.t
	v := recv.v
	if p, ok := t.Underlying().(*types.Pointer); ok {
		pv, ok := v.(*value)
		if !ok {
			s.fail("field %s of host pointer %T", name, v)
		}
		if pv == nil {
			s.fail("nil pointer evaluating .%s", name)
		}
		t = p.Elem()
		v = *pv
	}
	switch u := t.Underlying().(type) {
	case *types.Struct:
		st, ok := v.(structure)
		if !ok {
			s.fail("field %s of host struct %T", name, v)
		}
		for k := 0; k < u.NumFields(); k++ {
			if u.Field(k).Name() == name {
				if len(args) > 1 || final != nil {
					s.fail("%s has arguments but cannot be invoked as function", name)
				}
				return tval{u.Field(k).Type(), st[k]}
			}
		}
		// promoted fields through embedded structs
		for k := 0; k < u.NumFields(); k++ {
			if u.Field(k).Embedded() {
				inner := tval{u.Field(k).Type(), st[k]}
				if hasFieldOrMethod(i, inner.t, name) {
					return s.evalField(dot, name, args, final, inner)
				}
			}
		}
	case *types.Map:
		m := v.(*omap)
		if k := m.find(s.fr, name); k >= 0 {
			return tval{u.Elem(), m.vals[k]}
		}
		return tval{u.Elem(), zero(u.Elem())}
	}
	s.fail("can't evaluate field %s in type %s", name, recv.t)
	return tval{}
}

func hasFieldOrMethod(i *Interp, t types.Type, name string) bool {
	obj, _, _ := types.LookupFieldOrMethod(t, true, nil, name)
	return obj != nil
}

func (s *tmplState) callFunc(name string, fn value, sig *types.Signature, args []tval) tval {
	vals := make([]value, 0, len(args))
	np := sig.Params().Len()
	recvOff := 0
	if sig.Recv() != nil {
		recvOff = 1
		vals = append(vals, args[0].v)
	}
	rest := args[recvOff:]
	for k, a := range rest {
		var pt types.Type
		switch {
		case sig.Variadic() && k >= np-1:
			pt = sig.Params().At(np - 1).Type().(*types.Slice).Elem()
		case k < np:
			pt = sig.Params().At(k).Type()
		default:
			s.fail("too many arguments in call to %s", name)
		}
		vals = append(vals, convertForParam(a, pt))
	}
	if sig.Variadic() {
		fixed := recvOff + np - 1
		if len(vals) < fixed {
			s.fail("not enough arguments in call to %s", name)
		}
		var tail []value
		tail = append(tail, vals[fixed:]...)
		vals = append(vals[:fixed:fixed], tail)
	} else if len(vals) != recvOff+np {
		s.fail("wrong number of arguments in call to %s: %d for %d", name, len(vals)-recvOff, np)
	}
	r := call(s.fr.i, s.fr, 0, fn, vals)
	res := sig.Results()
	switch res.Len() {
	case 1:
		return tval{res.At(0).Type(), r}
	case 2:
		tup := r.(tuple)
		if e := tup[1].(iface); e.t != nil {
			panic(tmplError{e})
		}
		return tval{res.At(0).Type(), tup[0]}
	}
	s.fail("function %s has %d results", name, res.Len())
	return tval{}
}

func convertForParam(a tval, pt types.Type) value {
	if _, isI := pt.Underlying().(*types.Interface); isI {
		if it, ok := a.v.(iface); ok {
			return it
		}
		if a.t == nil {
			return iface{}
		}
		return iface{t: a.t, v: a.v}
	}
	if it, ok := a.v.(iface); ok {
		return it.v
	}
	return a.v
}

func (s *tmplState) evalFunction(dot tval, name string, args []parse.Node, final *tval) tval {
	// short-circuit builtins
	switch name {
	case "and", "or":
		var v tval
		for _, a := range args[1:] {
			v = s.evalArg(dot, a)
			if s.truth(v) == (name == "or") {
				return v
			}
		}
		if final != nil {
			v = *final
		}
		return v
	}
	var argv []tval
	for _, a := range args[1:] {
		argv = append(argv, s.evalArg(dot, a))
	}
	if final != nil {
		argv = append(argv, *final)
	}
	if fn, ok := s.funcs()[name]; ok {
		var sig *types.Signature
		switch f := fn.(type) {
		case iface:
			sig = f.t.Underlying().(*types.Signature)
			return s.callFunc(name, f.v, sig, argv)
		case *ssa.Function:
			return s.callFunc(name, f, f.Signature, argv)
		case *closure:
			return s.callFunc(name, f, f.Fn.Signature, argv)
		}
		s.fail("function %s of type %T", name, fn)
	}
	anys := func() []value {
		out := make([]value, len(argv))
		for k, a := range argv {
			if it, ok := a.v.(iface); ok {
				out[k] = it
			} else if a.t == nil {
				out[k] = iface{}
			} else {
				out[k] = iface{t: a.t, v: a.v}
			}
		}
		return out
	}
	str := types.Typ[types.String]
	switch name {
	case "printf":
		f, ok := indirectT(argv[0]).v.(string)
		if !ok {
			s.fail("printf with symbolic format")
		}
		r, _ := s.fr.symSprintf(f, anys()[1:])
		return tval{str, r}
	case "print", "println":
		var sb strings.Builder
		for k := range argv {
			if k > 0 && name == "println" {
				sb.WriteByte(' ')
			}
			sb.WriteString("%v")
		}
		if name == "println" {
			sb.WriteByte('\n')
		}
		r, _ := s.fr.symSprintf(sb.String(), anys())
		return tval{str, r}
	case "not":
		return tval{types.Typ[types.Bool], !s.truth(argv[0])}
	case "len":
		x := indirectT(argv[0])
		switch v := x.v.(type) {
		case string:
			return tval{types.Typ[types.Int], len(v)}
		case *sstr:
			return tval{types.Typ[types.Int], len(v.b)}
		case []value:
			return tval{types.Typ[types.Int], len(v)}
		case *omap:
			return tval{types.Typ[types.Int], v.len()}
		}
	case "slice":
		x := indirectT(argv[0])
		idx := make([]int, 0, 2)
		for _, a := range argv[1:] {
			idx = append(idx, int(asInt64(indirectT(a).v)))
		}
		if isStr(x.v) {
			lo, hi := 0, strLen(x.v)
			if len(idx) > 0 {
				lo = idx[0]
			}
			if len(idx) > 1 {
				hi = idx[1]
			}
			if lo < 0 || hi > strLen(x.v) || lo > hi {
				panic(tmplError{s.fr.newFmtError(fmt.Sprintf("error calling slice: index out of range: %d", hi), nil, nil)})
			}
			return tval{str, strSlice(x.v, lo, hi)}
		}
	case "index":
		x := indirectT(argv[0])
		if sl, ok := x.v.([]value); ok {
			k := int(asInt64(indirectT(argv[1]).v))
			if k < 0 || k >= len(sl) {
				panic(tmplError{s.fr.newFmtError(fmt.Sprintf("error calling index: index out of range: %d", k), nil, nil)})
			}
			return tval{x.t.Underlying().(*types.Slice).Elem(), sl[k]}
		}
	case "eq", "ne":
		a, b := indirectT(argv[0]), indirectT(argv[1])
		r := s.fr.decide(s.fr.eqValue(a.t, a.v, b.v))
		return tval{types.Typ[types.Bool], r == (name == "eq")}
	}
	s.fail("function %q with %d arguments", name, len(argv))
	return tval{}
}

func init() {
	intrinsics["(*text/template.Template).Execute"] = func(fr *frame, fn *ssa.Function, a []value) (ret value) {
		n, ok := a[0].(native)
		if !ok {
			panic(declined{})
		}
		t := n.x.(*template.Template)
		if t.Tree == nil || t.Tree.Root == nil {
			panic(unsupported("template %q is incomplete", t.Name()))
		}
		s := &tmplState{fr: fr, tmpl: t}
		data := tval{nil, nil}
		if it, ok := a[2].(iface); ok && it.t != nil {
			data = tval{it.t, it.v}
		}
		s.vars = []tmplVar{{"$", data}}
		defer func() {
			if r := recover(); r != nil {
				if te, ok := r.(tmplError); ok {
					// text/template wraps function errors; the text is not inspected by Atlas
					ret = te.err
					return
				}
				panic(r)
			}
		}()
		s.walk(data, t.Tree.Root)
		fr.writeTo(a[1], mkStr(s.out))
		return iface{}
	}
}
