package main

import (
	"fmt"
	"go/constant"
	"go/token"
	"go/types"
	"math"
	"unicode/utf8"
	"unsafe"

	"golang.org/x/tools/go/ssa"
)

func constValue(c *ssa.Const) value {
	if c.Value == nil {
		return zero(c.Type())
	}
	if t, ok := c.Type().Underlying().(*types.Basic); ok {
		switch t.Kind() {
		case types.Bool, types.UntypedBool:
			return constant.BoolVal(c.Value)
		case types.Float32:
			return float32(c.Float64())
		case types.Float64, types.UntypedFloat:
			return c.Float64()
		case types.Complex64:
			return complex64(c.Complex128())
		case types.Complex128, types.UntypedComplex:
			return c.Complex128()
		case types.String, types.UntypedString:
			if c.Value.Kind() == constant.String {
				return constant.StringVal(c.Value)
			}
			return string(rune(c.Int64()))
		case types.UnsafePointer:
			return unsafe.Pointer(nil)
		case types.Uint, types.Uint8, types.Uint16, types.Uint32, types.Uint64, types.Uintptr:
			return mkInt(t.Kind(), c.Uint64())
		default:
			return mkInt(t.Kind(), uint64(c.Int64()))
		}
	}
	panic(fmt.Sprintf("constValue: %s", c))
}

var intOps = map[token.Token][2]Op{ // [unsigned, signed]
	token.ADD: {OpAdd, OpAdd}, token.SUB: {OpSub, OpSub}, token.MUL: {OpMul, OpMul},
	token.QUO: {OpUDiv, OpSDiv}, token.REM: {OpURem, OpSRem},
	token.AND: {OpBAnd, OpBAnd}, token.OR: {OpBOr, OpBOr}, token.XOR: {OpBXor, OpBXor},
	token.SHL: {OpShl, OpShl}, token.SHR: {OpLshr, OpAshr},
	token.LSS: {OpUlt, OpSlt}, token.LEQ: {OpUle, OpSle},
}

// binop implements binary operators over concrete and symbolic operands.
func (fr *frame) binop(op token.Token, t types.Type, x, y value) value {
	switch op {
	case token.EQL:
		return fr.eqnil(t, x, y)
	case token.NEQ:
		return fr.not(fr.eqnil(t, x, y))
	}
	// strings
	if isStr(x) || isStr(y) {
		return fr.strBinop(op, x, y)
	}
	// floats
	switch x.(type) {
	case float32, float64, complex64, complex128:
		return floatBinop(op, x, y)
	}
	// booleans do not appear here except via AND/OR on bool? (not in SSA)
	f := fr.f()
	xb, xk, xok := intBits(x)
	yb, yk, yok := intBits(y)
	if xok && yok {
		return concIntBinop(fr, op, xk, xb, yk, yb)
	}
	// symbolic
	xt, xk2, ok1 := termOf(f, x)
	yt, yk2, ok2 := termOf(f, y)
	if !ok1 || !ok2 {
		panic(fmt.Sprintf("invalid binary op: %T %s %T", x, op, y))
	}
	k := xk2
	signed := kindSigned(k)
	switch op {
	case token.SHL, token.SHR:
		// shift count may have a different width/kind
		if kindSigned(yk2) {
			neg := f.Bin(OpSlt, yt, f.Const(yt.w, 0))
			if fr.i.p.Branch(neg) {
				fr.rtPanic("negative shift amount")
			}
		}
		// For narrower counts zero-extend; for wider counts saturate.
		var cnt *Term
		if yt.w <= xt.w {
			cnt = f.Resize(yt, xt.w, false)
		} else {
			big := f.Bin(OpUle, f.Const(yt.w, uint64(xt.w)), yt)
			cnt = f.Ite(big, f.Const(xt.w, uint64(xt.w)), f.Resize(yt, xt.w, false))
		}
		o := intOps[op][b2i(signed)]
		return mkScalar(f.Bin(o, xt, cnt), k)
	case token.GTR:
		return mkScalar(f.Bin(intOps[token.LSS][b2i(signed)], yt, xt), types.Bool)
	case token.GEQ:
		return mkScalar(f.Bin(intOps[token.LEQ][b2i(signed)], yt, xt), types.Bool)
	case token.LSS, token.LEQ:
		return mkScalar(f.Bin(intOps[op][b2i(signed)], xt, yt), types.Bool)
	case token.AND_NOT:
		return mkScalar(f.Bin(OpBAnd, xt, f.Un(OpBNot, yt)), k)
	case token.QUO, token.REM:
		if fr.i.p.Branch(f.Eq(yt, f.Const(yt.w, 0))) {
			fr.rtPanic("integer divide by zero")
		}
		return mkScalar(f.Bin(intOps[op][b2i(signed)], xt, yt), k)
	case token.LAND, token.LOR:
		panic("unexpected logical op in SSA")
	}
	if xt.w == 0 {
		panic(fmt.Sprintf("invalid binary op on bools: %s", op))
	}
	o, ok := intOps[op]
	if !ok {
		panic(fmt.Sprintf("invalid binary op: %T %s %T", x, op, y))
	}
	_ = yk2
	return mkScalar(f.Bin(o[b2i(signed)], xt, yt), k)
}

func b2i(b bool) int {
	if b {
		return 1
	}
	return 0
}

func isStr(x value) bool {
	switch x.(type) {
	case string, *sstr:
		return true
	}
	return false
}

func concIntBinop(fr *frame, op token.Token, xk types.BasicKind, xb uint64, yk types.BasicKind, yb uint64) value {
	w := kindWidth(xk)
	signed := kindSigned(xk)
	m := mask(w)
	xb &= m
	switch op {
	case token.SHL, token.SHR:
		if kindSigned(yk) && int64(yb) < 0 {
			fr.rtPanic("negative shift amount")
		}
		cnt := yb & mask(kindWidth(yk))
		if cnt > uint64(w) {
			cnt = uint64(w)
		}
		o := intOps[op][b2i(signed)]
		return mkInt(xk, evalOp(o, w, w, xb, cnt, 0))
	}
	yb &= m
	switch op {
	case token.GTR:
		return evalOp(intOps[token.LSS][b2i(signed)], 0, w, yb, xb, 0) != 0
	case token.GEQ:
		return evalOp(intOps[token.LEQ][b2i(signed)], 0, w, yb, xb, 0) != 0
	case token.LSS, token.LEQ:
		return evalOp(intOps[op][b2i(signed)], 0, w, xb, yb, 0) != 0
	case token.AND_NOT:
		return mkInt(xk, xb&^yb)
	case token.QUO, token.REM:
		if yb == 0 {
			fr.rtPanic("integer divide by zero")
		}
	}
	o, ok := intOps[op]
	if !ok {
		panic(fmt.Sprintf("invalid int binary op %s", op))
	}
	return mkInt(xk, evalOp(o[b2i(signed)], w, w, xb, yb, 0))
}

func floatBinop(op token.Token, x, y value) value {
	switch x := x.(type) {
	case float64:
		y := y.(float64)
		switch op {
		case token.ADD:
			return x + y
		case token.SUB:
			return x - y
		case token.MUL:
			return x * y
		case token.QUO:
			return x / y
		case token.LSS:
			return x < y
		case token.LEQ:
			return x <= y
		case token.GTR:
			return x > y
		case token.GEQ:
			return x >= y
		}
	case float32:
		y := y.(float32)
		switch op {
		case token.ADD:
			return x + y
		case token.SUB:
			return x - y
		case token.MUL:
			return x * y
		case token.QUO:
			return x / y
		case token.LSS:
			return x < y
		case token.LEQ:
			return x <= y
		case token.GTR:
			return x > y
		case token.GEQ:
			return x >= y
		}
	}
	panic(unsupported("float/complex op %s on %T", op, x))
}

func (fr *frame) strBinop(op token.Token, x, y value) value {
	f := fr.f()
	switch op {
	case token.ADD:
		return strConcat(x, y)
	case token.LSS:
		return mkScalar(strLtTerm(f, x, y), types.Bool)
	case token.GTR:
		return mkScalar(strLtTerm(f, y, x), types.Bool)
	case token.LEQ:
		return mkScalar(f.Not(strLtTerm(f, y, x)), types.Bool)
	case token.GEQ:
		return mkScalar(f.Not(strLtTerm(f, x, y)), types.Bool)
	}
	panic(fmt.Sprintf("invalid string op %s", op))
}

func (fr *frame) not(x value) value {
	switch x := x.(type) {
	case bool:
		return !x
	case symv:
		return mkScalar(fr.f().Not(x.t), types.Bool)
	}
	panic(fmt.Sprintf("not: %T", x))
}

// eqnil: x == y for type t (reference types compare with nil only).
func (fr *frame) eqnil(t types.Type, x, y value) value {
	switch t.Underlying().(type) {
	case *types.Map, *types.Signature, *types.Slice:
		return isNilRef(x) == isNilRef(y)
	}
	return fr.eqValue(t, x, y)
}

func isNilRef(x value) bool {
	switch x := x.(type) {
	case *omap:
		return x == nil
	case *ssa.Function:
		return x == nil
	case *closure:
		return x == nil
	case []value:
		return x == nil
	case *hostFunc:
		return x == nil
	case native:
		return false
	}
	panic(fmt.Sprintf("isNilRef: %T", x))
}

// eqValue returns x == y as a bool or symbolic bool.
func (fr *frame) eqValue(t types.Type, x, y value) value {
	f := fr.f()
	switch x := x.(type) {
	case symv:
		yt, _, ok := termOf(f, y)
		if !ok {
			panic(fmt.Sprintf("eq: symv vs %T", y))
		}
		return mkScalar(f.Eq(x.t, yt), types.Bool)
	case *sstr:
		return mkScalar(strEqTerm(f, x, y), types.Bool)
	case string:
		if ys, ok := y.(*sstr); ok {
			return mkScalar(strEqTerm(f, x, ys), types.Bool)
		}
		return x == y.(string)
	case bool:
		if ys, ok := y.(symv); ok {
			return mkScalar(f.Eq(f.Bool(x), ys.t), types.Bool)
		}
		return x == y.(bool)
	case float32:
		return x == y.(float32)
	case float64:
		return x == y.(float64)
	case complex64:
		return x == y.(complex64)
	case complex128:
		return x == y.(complex128)
	case *value:
		switch y := y.(type) {
		case *value:
			return x == y
		case native:
			return false
		}
	case native:
		switch y := y.(type) {
		case native:
			return hostEq(x.x, y.x)
		case *value:
			return false
		case structure:
			return false
		}
	case unsafe.Pointer:
		return x == y.(unsafe.Pointer)
	case structure:
		ys, ok := y.(structure)
		if !ok {
			return false
		}
		tStruct := t.Underlying().(*types.Struct)
		var r value = true
		for i, n := 0, tStruct.NumFields(); i < n; i++ {
			if fld := tStruct.Field(i); fld.Name() != "_" {
				r = fr.and(r, fr.eqValue(fld.Type(), x[i], ys[i]))
				if r == false {
					return false
				}
			}
		}
		return r
	case array:
		ya := y.(array)
		tElt := t.Underlying().(*types.Array).Elem()
		var r value = true
		for i := range x {
			r = fr.and(r, fr.eqValue(tElt, x[i], ya[i]))
			if r == false {
				return false
			}
		}
		return r
	case iface:
		yi := y.(iface)
		if x.t == nil || yi.t == nil {
			return x.t == nil && yi.t == nil
		}
		if !types.Identical(x.t, yi.t) {
			return false
		}
		if !types.Comparable(x.t) {
			if _, ok := x.t.(*hostType); !ok {
				panic(targetPanic{iface{t: fr.i.errType, v: "runtime error: comparing uncomparable type " + x.t.String()}, fr.stack()})
			}
		}
		return fr.eqValue(x.t, x.v, yi.v)
	case rtype:
		return types.Identical(x.t, y.(rtype).t)
	case *omap:
		return x == y.(*omap)
	}
	if xb, _, ok := intBits(x); ok {
		if ys, ok := y.(symv); ok {
			return mkScalar(f.Eq(f.Const(ys.t.w, xb), ys.t), types.Bool)
		}
		yb, _, ok := intBits(y)
		if !ok {
			panic(fmt.Sprintf("eq: int vs %T", y))
		}
		return xb == yb
	}
	if xr, ok := x.(rvalue); ok {
		yr, ok := y.(rvalue)
		if !ok {
			if ys, isS := y.(structure); isS && len(ys) == 3 {
				yr, ok = rvalue{}, true // an interpreted zero reflect.Value{}
			}
		}
		if ok {
			if xr.t == nil || yr.t == nil {
				return xr.t == nil && yr.t == nil
			}
			return types.Identical(xr.t, yr.t) && xr.addr == yr.addr && xr.addr != nil
		}
	}
	if _, ok := y.(rvalue); ok {
		if _, isS := x.(structure); isS {
			return fr.eqValue(t, y, x)
		}
	}
	panic(fmt.Sprintf("comparing uncomparable type %s (%T vs %T)", t, x, y))
}

func hostEq(a, b any) (r bool) {
	defer func() {
		if recover() != nil {
			r = false
		}
	}()
	return a == b
}

func (fr *frame) and(x, y value) value {
	xb, ok1 := x.(bool)
	yb, ok2 := y.(bool)
	if ok1 && ok2 {
		return xb && yb
	}
	f := fr.f()
	xt, _, _ := termOf(f, x)
	yt, _, _ := termOf(f, y)
	return mkScalar(f.And(xt, yt), types.Bool)
}

func (fr *frame) unop(instr *ssa.UnOp, x value) value {
	switch instr.Op {
	case token.ARROW:
		panic(unsupported("channel receive at %s", fr.where()))
	case token.SUB:
		switch x := x.(type) {
		case float32:
			return -x
		case float64:
			return -x
		case symv:
			return mkScalar(fr.f().Un(OpNeg, x.t), x.k)
		}
		if b, k, ok := intBits(x); ok {
			return mkInt(k, -b)
		}
	case token.MUL:
		px, ok := x.(*value)
		if !ok {
			if n, isN := x.(native); isN {
				// load of a host struct through a host pointer: keep opaque
				return hostDeref(n)
			}
			panic(fmt.Sprintf("load through %T", x))
		}
		if px == nil {
			fr.rtPanic("invalid memory address or nil pointer dereference")
		}
		if pv, isPoison := (*px).(poisonVal); isPoison {
			if fr.i.inInit {
				return pv
			}
			panic(unsupported("use of global %s whose package initialiser is not modelled", pv.name))
		}
		return load(deref(instr.X.Type()), px)
	case token.NOT:
		return fr.not(x)
	case token.XOR:
		if s, ok := x.(symv); ok {
			return mkScalar(fr.f().Un(OpBNot, s.t), s.k)
		}
		if b, k, ok := intBits(x); ok {
			return mkInt(k, ^b)
		}
	}
	panic(fmt.Sprintf("invalid unary op %s %T", instr.Op, x))
}

func typeAssert(fr *frame, instr *ssa.TypeAssert, itf iface) value {
	var v value
	err := ""
	if itf.t == nil {
		err = fmt.Sprintf("interface conversion: interface is nil, not %s", instr.AssertedType)
	} else if idst, ok := instr.AssertedType.Underlying().(*types.Interface); ok {
		v = itf
		if ht, ok := itf.t.(*hostType); ok {
			if !ht.implements(idst) {
				err = fmt.Sprintf("interface conversion: %v is not %v", itf.t, instr.AssertedType)
			}
		} else if meth, _ := types.MissingMethod(itf.t, idst, true); meth != nil {
			err = fmt.Sprintf("interface conversion: %v is not %v: missing method %s", itf.t, instr.AssertedType, meth.Name())
		}
	} else if types.Identical(itf.t, instr.AssertedType) {
		v = itf.v
	} else {
		err = fmt.Sprintf("interface conversion: interface is %s, not %s", itf.t, instr.AssertedType)
	}
	if err != "" {
		if !instr.CommaOk {
			panic(targetPanic{iface{t: fr.i.errType, v: err}, fr.stack()})
		}
		return tuple{zero(instr.AssertedType), false}
	}
	if instr.CommaOk {
		return tuple{v, true}
	}
	return v
}

func (fr *frame) lookup(instr *ssa.Lookup, x, idx value) value {
	switch x := x.(type) {
	case *omap:
		var v value
		i := x.find(fr, idx)
		ok := i >= 0
		if ok {
			v = copyVal(x.vals[i])
		} else {
			v = zero(instr.X.Type().Underlying().(*types.Map).Elem())
		}
		if instr.CommaOk {
			return tuple{v, ok}
		}
		return v
	case native:
		return hostMapLookup(fr, instr, x, idx)
	}
	panic(fmt.Sprintf("unexpected x type in Lookup: %T", x))
}

// slice returns x[lo:hi:max].
func (fr *frame) slice(instr *ssa.Slice, x, lo, hi, max value) value {
	var Len, Cap int
	switch x := x.(type) {
	case string:
		Len = len(x)
		Cap = Len
	case *sstr:
		Len = len(x.b)
		Cap = Len
	case []value:
		Len = len(x)
		Cap = cap(x)
	case *value:
		if x == nil {
			fr.rtPanic("invalid memory address or nil pointer dereference")
		}
		a := (*x).(array)
		Len = len(a)
		Cap = cap(a)
	default:
		panic(fmt.Sprintf("slice: unexpected X type: %T", x))
	}
	// Symbolic bounds are checked (forking into the panic) then concretised.
	l, h, m := int64(0), int64(Len), int64(Cap)
	if lo != nil {
		l = fr.concInt(lo)
	}
	if hi != nil {
		h = fr.concInt(hi)
	}
	if max != nil {
		m = fr.concInt(max)
	}
	if _, isStr := x.(string); isStr || func() bool { _, ok := x.(*sstr); return ok }() {
		if h < 0 || h > int64(Len) {
			fr.rtPanic("slice bounds out of range [:%d] with length %d", h, Len)
		}
		if l < 0 || l > h {
			fr.rtPanic("slice bounds out of range [%d:%d]", l, h)
		}
		return strSlice(x, int(l), int(h))
	}
	if m < 0 || m > int64(Cap) {
		fr.rtPanic("slice bounds out of range [::%d] with capacity %d", m, Cap)
	}
	if h < 0 || h > m {
		if max != nil {
			fr.rtPanic("slice bounds out of range [:%d:%d]", h, m)
		}
		fr.rtPanic("slice bounds out of range [:%d] with capacity %d", h, Cap)
	}
	if l < 0 || l > h {
		fr.rtPanic("slice bounds out of range [%d:%d]", l, h)
	}
	switch x := x.(type) {
	case []value:
		return x[l:h:m]
	case *value:
		a := (*x).(array)
		return []value(a)[l:h:m]
	}
	panic("unreachable")
}

func (fr *frame) sliceToArrayPointer(t_dst, t_src types.Type, x value) value {
	if ptr, ok := t_dst.Underlying().(*types.Pointer); ok {
		if arr, ok := ptr.Elem().Underlying().(*types.Array); ok {
			xs := x.([]value)
			if arr.Len() > int64(len(xs)) {
				fr.rtPanic("cannot convert slice with length %d to array or pointer to array with length %d", len(xs), arr.Len())
			}
			if xs == nil {
				return zero(t_dst)
			}
			v := value(array(xs[:arr.Len()]))
			return &v
		}
	}
	panic(fmt.Sprintf("unsupported conversion: %s  -> %s", t_src, t_dst))
}

func callBuiltin(caller *frame, callpos token.Pos, fn *ssa.Builtin, args []value) value {
	switch fn.Name() {
	case "append":
		if len(args) == 1 {
			return args[0]
		}
		if isStr(args[1]) {
			arg0 := args[0].([]value)
			return append(arg0, strBytes(args[1])...)
		}
		src := args[1].([]value)
		dst := args[0].([]value)
		for _, e := range src {
			dst = append(dst, copyVal(e))
		}
		return dst

	case "copy":
		src := args[1]
		if isStr(src) {
			src = strBytes(src)
		}
		dst := args[0].([]value)
		s := src.([]value)
		n := len(dst)
		if len(s) < n {
			n = len(s)
		}
		// memmove semantics
		tmp := make([]value, n)
		for i := 0; i < n; i++ {
			tmp[i] = copyVal(s[i])
		}
		copy(dst, tmp)
		return n

	case "close":
		panic(unsupported("close(chan)"))

	case "delete":
		m := args[0].(*omap)
		if m != nil {
			m.delete(caller, args[1])
		}
		return nil

	case "print", "println":
		return nil

	case "len":
		switch x := args[0].(type) {
		case string:
			return len(x)
		case *sstr:
			return len(x.b)
		case array:
			return len(x)
		case *value:
			return len((*x).(array))
		case []value:
			return len(x)
		case *omap:
			return x.len()
		default:
			panic(fmt.Sprintf("len: illegal operand: %T", x))
		}

	case "cap":
		switch x := args[0].(type) {
		case array:
			return cap(x)
		case *value:
			return cap((*x).(array))
		case []value:
			return cap(x)
		default:
			panic(fmt.Sprintf("cap: illegal operand: %T", x))
		}

	case "min", "max":
		x := args[0]
		for _, y := range args[1:] {
			var lt value
			if fn.Name() == "min" {
				lt = caller.binop(token.LSS, nil, y, x)
			} else {
				lt = caller.binop(token.GTR, nil, y, x)
			}
			if caller.decide(lt) {
				x = y
			}
		}
		return x

	case "clear":
		switch x := args[0].(type) {
		case *omap:
			if x != nil {
				x.keys, x.vals = nil, nil
				x.rebuild()
			}
		case []value:
			if len(x) > 0 {
				sig, _ := fn.Type().(*types.Signature)
				if sig == nil || sig.Params().Len() != 1 {
					panic(unsupported("clear(slice) without a typed signature"))
				}
				st, ok := sig.Params().At(0).Type().Underlying().(*types.Slice)
				if !ok {
					panic(unsupported("clear(%s)", sig.Params().At(0).Type()))
				}
				for k := range x {
					x[k] = zero(st.Elem())
				}
			}
		}
		return nil

	case "panic":
		panic(targetPanic{args[0], caller.stack()})

	case "recover":
		return doRecover(caller)

	case "ssa:wrapnilchk":
		recv := args[0]
		if p, ok := recv.(*value); ok && p == nil {
			caller.rtPanic("value method %s.%s called using nil pointer", toString(args[1]), toString(args[2]))
		}
		return recv

	case "ssa:deferstack":
		return &caller.defers
	}
	panic(unsupported("built-in %s", fn.Name()))
}

// ---- range ---------------------------------------------------------------

type stringIter struct {
	s value
	i int
}

func (it *stringIter) next(fr *frame) tuple {
	n := strLen(it.s)
	if it.i >= n {
		return tuple{false, nil, nil}
	}
	r, w := fr.decodeRune(it.s, it.i)
	t := tuple{true, it.i, r}
	it.i += w
	return t
}

func (fr *frame) rangeIter(x value, t types.Type) iter {
	switch x := x.(type) {
	case *omap:
		it := &mapIter{m: x}
		if x != nil {
			it.keys = append([]value(nil), x.keys...)
			if fr.i.mapPerm && len(it.keys) > 1 && isAtlasFn(fr.fn) {
				it.keys = fr.permute(it.keys)
			}
		}
		return it
	case string, *sstr:
		return &stringIter{s: x}
	case native:
		return hostRange(fr, x, t)
	}
	panic(fmt.Sprintf("cannot range over %T", x))
}

// permute picks an iteration order through choice points (all permutations
// for up to 3 entries; identity, reverse and one rotation beyond).
//
// With a deviation bound (-mapdev K) at most K map ranges of a path iterate in
// a non-canonical order; once the budget is used the remaining ranges are
// canonical and add no choice points.
func (fr *frame) permute(keys []value) []value {
	n := len(keys)
	p := fr.i.p
	if lim := fr.i.w.cfg.MapDev; lim > 0 && p.mapDev >= lim {
		return keys
	}
	out := make([]value, 0, n)
	if n <= 3 {
		rest := append([]value(nil), keys...)
		deviated := false
		for len(rest) > 1 {
			c := p.Choice("", len(rest))
			if c != 0 {
				deviated = true
			}
			out = append(out, rest[c])
			rest = append(rest[:c:c], rest[c+1:]...)
		}
		if deviated {
			p.mapDev++
		}
		return append(out, rest...)
	}
	switch p.Choice("", 3) {
	case 0:
		return keys
	case 1:
		p.mapDev++
		for i := n - 1; i >= 0; i-- {
			out = append(out, keys[i])
		}
		return out
	}
	p.mapDev++
	out = append(out, keys[n/2:]...)
	return append(out, keys[:n/2]...)
}

// decodeRune decodes the rune at s[i:], exactly like utf8.DecodeRuneInString,
// forking on the byte classes of symbolic bytes. The rune may be symbolic.
func (fr *frame) decodeRune(s value, i int) (value, int) {
	n := strLen(s) - i
	if n <= 0 {
		return int32(utf8.RuneError), 0
	}
	if cs, ok := s.(string); ok {
		r, w := utf8.DecodeRuneInString(cs[i:])
		return r, w
	}
	bs := strBytes(s)[i:]
	return fr.decodeRuneBytes(bs)
}

func (fr *frame) decodeRuneBytes(bs []value) (value, int) {
	n := len(bs)
	if n == 0 {
		return int32(utf8.RuneError), 0
	}
	// fully concrete prefix?
	var buf [4]byte
	k := 0
	for k < 4 && k < n {
		c, ok := bs[k].(uint8)
		if !ok {
			break
		}
		buf[k] = c
		k++
	}
	if k > 0 && (buf[0] < utf8.RuneSelf || k == 4 || k == n || utf8.FullRune(buf[:k])) {
		if buf[0] < utf8.RuneSelf {
			return int32(buf[0]), 1
		}
		// need to make sure remaining needed bytes are concrete
		need := 1
		switch {
		case buf[0] >= 0xF0:
			need = 4
		case buf[0] >= 0xE0:
			need = 3
		case buf[0] >= 0xC0:
			need = 2
		}
		if k >= need || k == n {
			r, w := utf8.DecodeRune(buf[:k])
			return r, w
		}
	}
	f := fr.f()
	p := fr.i.p
	b0 := byteTerm(f, bs[0])
	c8 := func(v uint64) *Term { return f.Const(8, v) }
	inRange := func(b *Term, lo, hi uint64) *Term {
		return f.And(f.Bin(OpUle, c8(lo), b), f.Bin(OpUle, b, c8(hi)))
	}
	z := func(b *Term) *Term { return f.Resize(b, 32, false) }
	c32 := func(v uint64) *Term { return f.Const(32, v) }
	bad := func() (value, int) { return int32(utf8.RuneError), 1 }
	if p.Branch(f.Bin(OpUlt, b0, c8(0x80))) {
		return mkScalar(z(b0), types.Int32), 1
	}
	if fr.i.w.cfg.ASCIIOnly {
		panic(abortPath{kind: "pruned", reason: "non-ASCII byte under ASCII-only bound"})
	}
	cont := func(idx int, lo, hi uint64) (*Term, bool) {
		if idx >= n {
			return nil, false
		}
		b := byteTerm(f, bs[idx])
		if !p.Branch(inRange(b, lo, hi)) {
			return nil, false
		}
		return b, true
	}
	switch {
	case p.Branch(inRange(b0, 0xC2, 0xDF)):
		b1, ok := cont(1, 0x80, 0xBF)
		if !ok {
			return bad()
		}
		r := f.Bin(OpBOr, f.Bin(OpShl, f.Bin(OpBAnd, z(b0), c32(0x1F)), c32(6)), f.Bin(OpBAnd, z(b1), c32(0x3F)))
		return mkScalar(r, types.Int32), 2
	case p.Branch(inRange(b0, 0xE0, 0xEF)):
		lo, hi := uint64(0x80), uint64(0xBF)
		if p.Branch(f.Eq(b0, c8(0xE0))) {
			lo = 0xA0
		} else if p.Branch(f.Eq(b0, c8(0xED))) {
			hi = 0x9F
		}
		b1, ok := cont(1, lo, hi)
		if !ok {
			return bad()
		}
		b2, ok := cont(2, 0x80, 0xBF)
		if !ok {
			return bad()
		}
		r := f.Bin(OpBOr, f.Bin(OpBOr,
			f.Bin(OpShl, f.Bin(OpBAnd, z(b0), c32(0x0F)), c32(12)),
			f.Bin(OpShl, f.Bin(OpBAnd, z(b1), c32(0x3F)), c32(6))),
			f.Bin(OpBAnd, z(b2), c32(0x3F)))
		return mkScalar(r, types.Int32), 3
	case p.Branch(inRange(b0, 0xF0, 0xF4)):
		lo, hi := uint64(0x80), uint64(0xBF)
		if p.Branch(f.Eq(b0, c8(0xF0))) {
			lo = 0x90
		} else if p.Branch(f.Eq(b0, c8(0xF4))) {
			hi = 0x8F
		}
		b1, ok := cont(1, lo, hi)
		if !ok {
			return bad()
		}
		b2, ok := cont(2, 0x80, 0xBF)
		if !ok {
			return bad()
		}
		b3, ok := cont(3, 0x80, 0xBF)
		if !ok {
			return bad()
		}
		r := f.Bin(OpBOr, f.Bin(OpBOr, f.Bin(OpBOr,
			f.Bin(OpShl, f.Bin(OpBAnd, z(b0), c32(0x07)), c32(18)),
			f.Bin(OpShl, f.Bin(OpBAnd, z(b1), c32(0x3F)), c32(12))),
			f.Bin(OpShl, f.Bin(OpBAnd, z(b2), c32(0x3F)), c32(6))),
			f.Bin(OpBAnd, z(b3), c32(0x3F)))
		return mkScalar(r, types.Int32), 4
	}
	return bad()
}

// ---- conversions ---------------------------------------------------------

func (fr *frame) conv(t_dst, t_src types.Type, x value) value {
	ut_src := t_src.Underlying()
	ut_dst := t_dst.Underlying()
	f := fr.f()

	switch ut_src := ut_src.(type) {
	case *types.Pointer:
		if b, ok := ut_dst.(*types.Basic); ok && b.Kind() == types.UnsafePointer {
			panic(unsupported("conversion to unsafe.Pointer at %s", fr.where()))
		}
		return x
	case *types.Slice:
		eb, _ := ut_src.Elem().Underlying().(*types.Basic)
		if db, ok := ut_dst.(*types.Basic); ok && db.Info()&types.IsString != 0 && eb != nil {
			switch eb.Kind() {
			case types.Byte:
				return mkStr(x.([]value))
			case types.Rune:
				var out []value
				for _, r := range x.([]value) {
					out = append(out, fr.encodeRune(r)...)
				}
				return mkStr(out)
			}
		}
		return x
	case *types.Basic:
		// string source
		if isStr(x) {
			switch ut_dst := ut_dst.(type) {
			case *types.Slice:
				switch ut_dst.Elem().Underlying().(*types.Basic).Kind() {
				case types.Rune:
					var res []value
					for i, n := 0, strLen(x); i < n; {
						r, w := fr.decodeRune(x, i)
						res = append(res, r)
						i += w
					}
					return res
				case types.Byte:
					b := strBytes(x)
					res := make([]value, len(b))
					copy(res, b)
					return res
				}
			case *types.Basic:
				if ut_dst.Info()&types.IsString != 0 {
					return x
				}
			}
			break
		}
		if ut_src.Kind() == types.UnsafePointer {
			panic(unsupported("conversion from unsafe.Pointer at %s", fr.where()))
		}
		db, ok := ut_dst.(*types.Basic)
		if !ok {
			break
		}
		// integer -> string
		if ut_src.Info()&types.IsInteger != 0 && db.Info()&types.IsString != 0 {
			return mkStr(fr.encodeRune(fr.conv(types.Typ[types.Int32], t_src, clampRune(fr, x))))
		}
		dk := db.Kind()
		if s, ok := x.(symv); ok {
			if db.Info()&types.IsInteger == 0 {
				if db.Info()&types.IsBoolean != 0 {
					return x
				}
				// symbolic int -> float: concretise
				return fr.conv(t_dst, t_src, mkInt(s.k, fr.i.p.Concretize(s.t)))
			}
			if s.t.w == 0 {
				return x
			}
			return mkScalar(f.Resize(s.t, kindWidth(dk), kindSigned(s.k)), dk)
		}
		if bits, k, ok := intBits(x); ok {
			switch {
			case db.Info()&types.IsInteger != 0:
				if kindSigned(k) {
					return mkInt(dk, uint64(sext64(bits, kindWidth(k))))
				}
				return mkInt(dk, bits&mask(kindWidth(k)))
			case dk == types.Float64:
				if kindSigned(k) {
					return float64(sext64(bits, kindWidth(k)))
				}
				return float64(bits & mask(kindWidth(k)))
			case dk == types.Float32:
				if kindSigned(k) {
					return float32(sext64(bits, kindWidth(k)))
				}
				return float32(bits & mask(kindWidth(k)))
			}
		}
		switch xv := x.(type) {
		case bool:
			return xv
		case float64:
			return convFloat(dk, xv)
		case float32:
			return convFloat(dk, float64(xv))
		case complex128:
			if dk == types.Complex64 {
				return complex64(xv)
			}
			return xv
		case complex64:
			if dk == types.Complex128 {
				return complex128(xv)
			}
			return xv
		}
	case *types.Signature, *types.Map, *types.Struct, *types.Array, *types.Chan, *types.Interface:
		return x
	}
	panic(fmt.Sprintf("unsupported conversion: %s  -> %s, dynamic type %T", t_src, t_dst, x))
}

func clampRune(fr *frame, x value) value { return x }

func convFloat(dk types.BasicKind, x float64) value {
	switch dk {
	case types.Float32:
		return float32(x)
	case types.Float64:
		return x
	case types.Int, types.Int8, types.Int16, types.Int32, types.Int64:
		return mkInt(dk, uint64(int64(x)))
	case types.Uint, types.Uint8, types.Uint16, types.Uint32, types.Uint64, types.Uintptr:
		if x < 0 {
			return mkInt(dk, uint64(int64(x)))
		}
		if x >= math.MaxInt64 {
			return mkInt(dk, uint64(x))
		}
		return mkInt(dk, uint64(x))
	}
	panic(fmt.Sprintf("convFloat to %v", dk))
}

// encodeRune returns the UTF-8 bytes of rune r (forking when symbolic).
func (fr *frame) encodeRune(r value) []value {
	if s, ok := r.(symv); ok {
		f := fr.f()
		p := fr.i.p
		t := f.Resize(s.t, 32, kindSigned(s.k))
		if p.Branch(f.Bin(OpUlt, t, f.Const(32, 0x80))) {
			return []value{mkScalar(f.Resize(t, 8, false), types.Uint8)}
		}
		if p.Branch(f.Bin(OpUlt, t, f.Const(32, 0x800))) {
			b0 := f.Bin(OpBOr, f.Const(32, 0xC0), f.Bin(OpLshr, t, f.Const(32, 6)))
			b1 := f.Bin(OpBOr, f.Const(32, 0x80), f.Bin(OpBAnd, t, f.Const(32, 0x3F)))
			return []value{mkScalar(f.Resize(b0, 8, false), types.Uint8), mkScalar(f.Resize(b1, 8, false), types.Uint8)}
		}
		v := p.Concretize(t)
		return fr.encodeRune(int32(v))
	}
	rv := rune(asInt64(r))
	var buf [4]byte
	n := utf8.EncodeRune(buf[:], rv)
	out := make([]value, n)
	for i := 0; i < n; i++ {
		out[i] = buf[i]
	}
	return out
}
