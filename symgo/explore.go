package main

// Path exploration: stateless re-execution (DART/KLEE style). A path is its
// list of decisions; workers re-run the harness following a prefix and fork at
// the first undecided symbolic branch.

import (
	"fmt"
	"sort"
	"strings"
	"sync"
	"time"
)

type Decision struct {
	Kind  byte   // 'b' branch, 'p' pick (concretise), 'c' choice
	Taken bool   // for 'b' and 'p' (p: term == Val)
	Val   uint64 // for 'p' and 'c'
}

func (d Decision) String() string {
	switch d.Kind {
	case 'b':
		if d.Taken {
			return "T"
		}
		return "F"
	case 'p':
		if d.Taken {
			return fmt.Sprintf("=%d", d.Val)
		}
		return fmt.Sprintf("!%d", d.Val)
	}
	return fmt.Sprintf("c%d", d.Val)
}

// abortPath is panicked to end a path early.
type abortPath struct {
	kind   string // "pruned", "unsupported", "budget", "internal", "solver"
	reason string
}

func unsupported(format string, args ...any) abortPath {
	return abortPath{kind: "unsupported", reason: fmt.Sprintf(format, args...)}
}

type Violation struct {
	Kind      string            `json:"kind"` // assert | panic
	Msg       string            `json:"msg"`
	Model     map[string]uint64 `json:"model"`
	Choices   map[string]uint64 `json:"choices"`
	Decisions string            `json:"decisions"`
	Harness   string            `json:"harness"`
	Where     string            `json:"where,omitempty"`
	Confirmed *bool             `json:"confirmed,omitempty"`
	ReplayOut string            `json:"replay_out,omitempty"`
	Path      string            `json:"-"`
}

type dom [4]uint64

func (d *dom) has(v uint64) bool { return d[v>>6]&(1<<(v&63)) != 0 }
func (d *dom) empty() bool       { return d[0]|d[1]|d[2]|d[3] == 0 }
func fullDom(w uint8) dom {
	var d dom
	n := 1 << w
	if w == 0 {
		n = 2
	}
	for i := 0; i < n; i++ {
		d[i>>6] |= 1 << (uint(i) & 63)
	}
	return d
}

// PathSample is kept for evidence.
type PathSample struct {
	Decisions string            `json:"decisions"`
	Model     map[string]uint64 `json:"model,omitempty"`
	Choices   map[string]uint64 `json:"choices,omitempty"`
	Observed  []string          `json:"observed,omitempty"`
	End       string            `json:"end"`
}

// Path is the state of one execution.
type Path struct {
	w           *Worker
	f           *TermFactory
	prefix      []Decision
	decisions   []Decision
	pc          []*Term
	model       map[string]uint64
	modelValid  bool
	domains     map[string]*dom
	entangled   map[string]bool
	inputs      []*Term // declared symbolic inputs in order
	inputSet    map[string]*Term
	choices     map[string]uint64
	mapDev      int // map ranges iterated in a permuted order so far
	pools       map[*value][]value // sync.Pool contents (per path)
	observed    []string
	reached     map[string]bool
	steps       int64
	tokens      int
	fresh       int
	forked      int
	opaqueHit   bool
	known       map[uint32]bool
	observedRaw []observedVal
}

type observedVal struct {
	label string
	v     value
}

type Stats struct {
	Paths, Pruned, Aborted    int
	Forks                     int64
	Steps                     int64
	Queries, Sat, UnsatN, Unk int
	DomainDecided             int64
	ModelDecided              int64
	SolverTime                time.Duration
	AssertQueries             int
	AssertsChecked            int64
	AbortReasons              map[string]int
	Reached                   map[string]int
	Funcs                     map[string]bool
	Intrinsics                map[string]bool
	Natives                   map[string]bool
	Stubs                     map[string]bool
	CrossChecked              int
	CrossDisagree             int
	MaxDepth                  int
}

type Explorer struct {
	mu         sync.Mutex
	cond       *sync.Cond
	work       [][]Decision
	busy       int
	done       bool
	stats      Stats
	violations []*Violation
	samples    []PathSample
	maxPaths   int
	maxViol    int
	stop       bool
	stopReason string
	started    time.Time
	deadline   time.Time
}

func NewExplorer() *Explorer {
	e := &Explorer{maxPaths: 2000000, maxViol: 8}
	e.cond = sync.NewCond(&e.mu)
	e.stats.AbortReasons = map[string]int{}
	e.stats.Reached = map[string]int{}
	e.stats.Funcs = map[string]bool{}
	e.stats.Intrinsics = map[string]bool{}
	e.stats.Natives = map[string]bool{}
	e.stats.Stubs = map[string]bool{}
	e.work = [][]Decision{nil}
	return e
}

func (e *Explorer) push(prefix []Decision) {
	e.mu.Lock()
	e.work = append(e.work, prefix)
	e.mu.Unlock()
	e.cond.Signal()
}

func (e *Explorer) next() ([]Decision, bool) {
	e.mu.Lock()
	defer e.mu.Unlock()
	for {
		if e.stop {
			return nil, false
		}
		if n := len(e.work); n > 0 {
			p := e.work[n-1]
			e.work = e.work[:n-1]
			e.busy++
			return p, true
		}
		if e.busy == 0 {
			e.cond.Broadcast()
			return nil, false
		}
		e.cond.Wait()
	}
}

func (e *Explorer) finish() {
	e.mu.Lock()
	e.busy--
	if e.busy == 0 && len(e.work) == 0 {
		e.cond.Broadcast()
	}
	e.mu.Unlock()
}

func (e *Explorer) halt(reason string) {
	e.mu.Lock()
	if !e.stop {
		e.stop = true
		e.stopReason = reason
	}
	e.mu.Unlock()
	e.cond.Broadcast()
}

// ---------------------------------------------------------------------------

func (p *Path) decStr() string {
	var sb strings.Builder
	for i, d := range p.decisions {
		if i > 0 && (d.Kind != 'b' || p.decisions[i-1].Kind != 'b') {
			sb.WriteByte(' ')
		}
		sb.WriteString(d.String())
	}
	return sb.String()
}

func (p *Path) addPC(t *Term) {
	if t.IsConst() {
		if t.val == 0 {
			panic(abortPath{kind: "internal", reason: "false added to path condition"})
		}
		return
	}
	p.pc = append(p.pc, t)
	if p.known == nil {
		p.known = map[uint32]bool{}
	}
	p.known[t.id] = true
	if t.op == OpNot {
		p.known[t.a[0].id] = false
	} else {
		p.known[p.f.Not(t).id] = false
	}
	p.w.solver.Assert(t)
	p.refine(t)
}

// refine updates the per-variable domains with constraint t.
func (p *Path) refine(t *Term) {
	switch len(t.vars) {
	case 0:
		return
	case 1:
		v := t.vars[0]
		if v.w <= 8 && t.size <= 4096 {
			d := p.domOf(v)
			n := uint64(1) << v.w
			if v.w == 0 {
				n = 2
			}
			for i := uint64(0); i < n; i++ {
				if d.has(i) && t.evalSingle(i) == 0 {
					d[i>>6] &^= 1 << (i & 63)
				}
			}
			return
		}
	}
	// conjunctions split for precision
	if t.op == OpAnd {
		p.refine(t.a[0])
		p.refine(t.a[1])
		return
	}
	for _, v := range t.vars {
		p.entangled[v.name] = true
	}
}

func (p *Path) domOf(v *Term) *dom {
	d := p.domains[v.name]
	if d == nil {
		nd := fullDom(v.w)
		d = &nd
		p.domains[v.name] = d
	}
	return d
}

// domainDecide returns (feasibleTrue, feasibleFalse, decided).
func (p *Path) domainDecide(c *Term) (bool, bool, bool) {
	if !p.w.cfg.Domain || len(c.vars) != 1 {
		return false, false, false
	}
	v := c.vars[0]
	if v.w > 8 || c.size > 4096 {
		return false, false, false
	}
	d := p.domOf(v)
	n := uint64(1) << v.w
	if v.w == 0 {
		n = 2
	}
	anyT, anyF := false, false
	for i := uint64(0); i < n; i++ {
		if !d.has(i) {
			continue
		}
		if c.evalSingle(i) != 0 {
			anyT = true
		} else {
			anyF = true
		}
		if anyT && anyF {
			break
		}
	}
	if anyT && anyF && p.entangled[v.name] {
		return false, false, false
	}
	// A single feasible side is exact even when entangled, because the
	// domain over-approximates and the path condition is satisfiable.
	return anyT, anyF, true
}

// checkWith asks the solver whether pc ∧ c is satisfiable. If wantModel and
// sat, the path model is refreshed.
func (p *Path) checkWith(c *Term, wantModel bool) bool {
	s := p.w.solver
	sv := s.Push()
	s.Assert(c)
	var mvars []*Term
	if wantModel {
		mvars = p.allVars(c)
		for _, v := range mvars {
			s.pr.declare(v)
		}
	}
	r, err := s.Check()
	if err != nil || r == Unknown {
		s.Pop(sv)
		msg := "unknown"
		if err != nil {
			msg = err.Error()
		}
		panic(abortPath{kind: "solver", reason: msg})
	}
	if r == Sat && wantModel {
		m, err := s.Model(mvars)
		if err != nil {
			s.Pop(sv)
			panic(abortPath{kind: "solver", reason: err.Error()})
		}
		p.model = m
		p.modelValid = true
	}
	s.Pop(sv)
	if p.w.cfg.Cross && r == Unsat {
		// An unsat answer is a universal claim (no input takes this side /
		// violates this assertion): confirm it on the other solvers.
		p.crossUnsat(c)
	}
	return r == Sat
}

func (p *Path) crossUnsat(c *Term) {
	for _, s := range p.w.cross {
		s.Reset()
		for _, t := range p.pc {
			s.Assert(t)
		}
		s.Assert(c)
		r, err := s.Check()
		p.w.crossChecked++
		if err != nil || r != Unsat {
			p.w.crossDisagree++
			p.w.ex.halt(fmt.Sprintf("cross-solver disagreement in %s: z3 unsat, %s=%v err=%v", p.w.cfg.Harness, s.name, r, err))
		}
	}
}

func (p *Path) allVars(extra *Term) []*Term {
	seen := map[string]bool{}
	var out []*Term
	add := func(vs []*Term) {
		for _, v := range vs {
			if !seen[v.name] {
				seen[v.name] = true
				out = append(out, v)
			}
		}
	}
	add(p.inputs)
	for _, t := range p.pc {
		add(t.vars)
	}
	if extra != nil {
		add(extra.vars)
	}
	return out
}

// ensureModel makes p.model a model of the current path condition.
func (p *Path) ensureModel() {
	if p.modelValid {
		return
	}
	if !p.checkWith(p.f.True, true) {
		panic(abortPath{kind: "internal", reason: "path condition became unsatisfiable"})
	}
}

func (p *Path) nextPrefix() (Decision, bool) {
	i := len(p.decisions)
	if i < len(p.prefix) {
		return p.prefix[i], true
	}
	return Decision{}, false
}

func (p *Path) fork(alt Decision) {
	np := make([]Decision, len(p.decisions)+1)
	copy(np, p.decisions)
	np[len(p.decisions)] = alt
	p.w.ex.push(np)
	p.forked++
}

func (p *Path) checkBudget() {
	if len(p.decisions) > p.w.cfg.MaxDecisions {
		panic(abortPath{kind: "budget", reason: "decision budget exceeded"})
	}
}

// Branch decides a symbolic condition on this path and returns the side taken.
func (p *Path) Branch(c *Term) bool {
	if c.IsConst() {
		return c.val != 0
	}
	if c.w != 0 {
		panic(abortPath{kind: "internal", reason: "Branch on non-bool term"})
	}
	for _, v := range c.vars {
		if v.opaque {
			loc := ""
			if cf := p.w.interp.curFrame; cf != nil {
				loc = " at " + cf.where() + " in " + cf.fn.String()
			}
			panic(unsupported("branch on opaque (un-modelled) string content %s%s", v.name, loc))
		}
	}
	if v, ok := p.known[c.id]; ok {
		return v // already decided on this path (syntactically identical condition)
	}
	nc := p.f.Not(c)
	if d, ok := p.nextPrefix(); ok {
		if d.Kind != 'b' {
			panic(abortPath{kind: "internal", reason: "replay divergence: expected branch decision, got " + d.String()})
		}
		p.decisions = append(p.decisions, d)
		if d.Taken {
			p.addPC(c)
		} else {
			p.addPC(nc)
		}
		p.modelValid = false
		return d.Taken
	}
	p.checkBudget()
	var okT, okF bool
	if t, f, ok := p.domainDecide(c); ok {
		okT, okF = t, f
		p.w.domainDecided++
	} else if p.modelValid {
		if c.Eval(p.model) != 0 {
			okT = true
			okF = p.checkWith(nc, false)
		} else {
			okF = true
			okT = p.checkWith(c, false)
		}
		p.w.modelDecided++
	} else {
		okT = p.checkWith(c, true)
		if !okT {
			okF = true
		} else {
			okF = p.checkWith(nc, false)
		}
	}
	if !okT && !okF {
		panic(abortPath{kind: "internal", reason: "both branch sides infeasible"})
	}
	take := okT
	if okT && okF {
		if p.modelValid {
			take = c.Eval(p.model) != 0
		}
		p.fork(Decision{Kind: 'b', Taken: !take})
	} else if p.modelValid {
		if (c.Eval(p.model) != 0) != take {
			p.modelValid = false
		}
	}
	if debugBranch && okT && okF {
		loc := ""
		if cf := p.w.interp.curFrame; cf != nil {
			loc = cf.fn.String() + " " + cf.where()
			if cf.caller != nil {
				loc += " <- " + cf.caller.fn.String()
			}
		}
		fmt.Printf("FORK %s @ %s\n", c, loc)
	}
	p.decisions = append(p.decisions, Decision{Kind: 'b', Taken: take})
	if take {
		p.addPC(c)
	} else {
		p.addPC(nc)
	}
	return take
}

// Choice is a concrete n-way fork.
func (p *Path) Choice(name string, n int) int {
	if n <= 0 {
		panic(abortPath{kind: "pruned", reason: "empty choice"})
	}
	var v uint64
	if d, ok := p.nextPrefix(); ok {
		if d.Kind != 'c' {
			panic(abortPath{kind: "internal", reason: "replay divergence: expected choice, got " + d.String()})
		}
		v = d.Val
		p.decisions = append(p.decisions, d)
	} else {
		p.checkBudget()
		for i := n - 1; i >= 1; i-- {
			p.fork(Decision{Kind: 'c', Val: uint64(i)})
		}
		p.decisions = append(p.decisions, Decision{Kind: 'c', Val: 0})
	}
	if name != "" {
		p.choices[name] = v
	}
	return int(v)
}

// Concretize case-splits a bit-vector term into its feasible values.
func (p *Path) Concretize(t *Term) uint64 {
	for {
		if t.IsConst() {
			return t.val
		}
		for _, v := range t.vars {
			if v.opaque {
				panic(unsupported("concretising opaque string content %s", v.name))
			}
		}
		if d, ok := p.nextPrefix(); ok {
			if d.Kind != 'p' {
				panic(abortPath{kind: "internal", reason: "replay divergence: expected pick, got " + d.String()})
			}
			p.decisions = append(p.decisions, d)
			eq := p.f.Eq(t, p.f.Const(t.w, d.Val))
			p.modelValid = false
			if d.Taken {
				p.addPC(eq)
				return d.Val
			}
			p.addPC(p.f.Not(eq))
			continue
		}
		p.checkBudget()
		p.ensureModel()
		v := t.Eval(p.model)
		eq := p.f.Eq(t, p.f.Const(t.w, v))
		if eq.IsConst() {
			if eq.val != 0 {
				return v
			}
			panic(abortPath{kind: "internal", reason: "concretize: model value rejected"})
		}
		if p.checkWith(p.f.Not(eq), false) {
			p.fork(Decision{Kind: 'p', Taken: false, Val: v})
		}
		p.decisions = append(p.decisions, Decision{Kind: 'p', Taken: true, Val: v})
		p.addPC(eq)
		return v
	}
}

// Assume restricts the path; an infeasible assumption prunes it.
func (p *Path) Assume(c *Term) {
	if c.IsConst() {
		if c.val == 0 {
			panic(abortPath{kind: "pruned", reason: "assume(false)"})
		}
		return
	}
	if t, _, ok := p.domainDecide(c); ok {
		if !t {
			panic(abortPath{kind: "pruned", reason: "assumption infeasible"})
		}
		if p.modelValid && c.Eval(p.model) == 0 {
			p.modelValid = false
		}
	} else if p.modelValid && c.Eval(p.model) != 0 {
		// still a model
	} else if !p.checkWith(c, true) {
		panic(abortPath{kind: "pruned", reason: "assumption infeasible"})
	}
	p.addPC(c)
}

// Assert checks that c holds for every value satisfying the path condition.
// The query always goes to the solver (no domain shortcut).
func (p *Path) Assert(c *Term, kind, msg, where string) {
	p.w.assertsChecked++
	if c.IsConst() && c.val != 0 {
		return
	}
	nc := p.f.Not(c)
	p.w.assertQueries++
	if p.checkWith(nc, true) {
		m := map[string]uint64{}
		for _, v := range p.inputs {
			m[v.name] = p.model[v.name]
		}
		ch := map[string]uint64{}
		for k, v := range p.choices {
			ch[k] = v
		}
		p.modelValid = false
		p.w.ex.addViolation(&Violation{Kind: kind, Msg: msg, Model: m, Choices: ch, Decisions: p.decStr(), Where: where, Harness: p.w.cfg.Harness})
		// continue under the assumption that the assertion holds
		if c.IsConst() || !p.checkWith(c, true) {
			panic(abortPath{kind: "violated", reason: msg})
		}
	}
	p.addPC(c)
}

func (p *Path) crossCheck(nc *Term) {
	main := p.checkWith(nc, false)
	for _, s := range p.w.cross {
		s.Reset()
		for _, t := range p.pc {
			s.Assert(t)
		}
		s.Assert(nc)
		r, err := s.Check()
		p.w.crossChecked++
		if err != nil || r == Unknown || (r == Sat) != main {
			p.w.crossDisagree++
			p.w.ex.halt(fmt.Sprintf("cross-solver disagreement on %s: main=%v %s=%v err=%v", p.w.cfg.Harness, main, s.name, r, err))
		}
	}
}

func (e *Explorer) addViolation(v *Violation) {
	e.mu.Lock()
	defer e.mu.Unlock()
	for _, o := range e.violations {
		if o.Msg == v.Msg && o.Kind == v.Kind && len(e.violations) >= 3 {
			// keep at most a few per message
			n := 0
			for _, q := range e.violations {
				if q.Msg == v.Msg {
					n++
				}
			}
			if n >= 3 {
				return
			}
			break
		}
	}
	e.violations = append(e.violations, v)
	if len(e.violations) >= e.maxViol {
		e.stop = true
		e.stopReason = "violation limit reached"
		e.cond.Broadcast()
	}
}

// NewInput declares a named symbolic input.
func (p *Path) NewInput(name string, w uint8) *Term {
	if t, ok := p.inputSet[name]; ok {
		return t
	}
	t := p.f.Var(name, w)
	p.inputSet[name] = t
	p.inputs = append(p.inputs, t)
	p.modelValid = p.modelValid && true
	if p.modelValid {
		if _, ok := p.model[name]; !ok {
			p.model[name] = 0
		}
	}
	return t
}

func (p *Path) Fresh(prefix string, w uint8) *Term {
	p.fresh++
	return p.f.Var(fmt.Sprintf("%s!%d", prefix, p.fresh), w)
}

func sortedKeys[V any](m map[string]V) []string {
	out := make([]string, 0, len(m))
	for k := range m {
		out = append(out, k)
	}
	sort.Strings(out)
	return out
}
