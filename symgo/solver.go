package main

// Solver: one long-lived SMT solver process per worker (z3 -in by default),
// SMT-LIB2 over a pipe. Any "(error" line or "unknown" makes the query
// inconclusive (never reported as success).

import (
	"bufio"
	"fmt"
	"io"
	"os/exec"
	"strconv"
	"strings"
	"time"
)

type SatResult int

const (
	Unsat SatResult = iota
	Sat
	Unknown
)

func (r SatResult) String() string {
	return [...]string{"unsat", "sat", "unknown"}[r]
}

type Solver struct {
	name    string
	cmd     *exec.Cmd
	in      io.WriteCloser
	out     *bufio.Reader
	pr      *smtPrinter
	buf     strings.Builder
	seq     int
	Queries int
	NSat    int
	NUnsat  int
	NUnk    int
	Time    time.Duration
	log     io.Writer
	depth   int
	lost    bool // the process was killed by the query watchdog and replaced; state is gone until Reset
	NKilled int
}

func solverArgs(kind string) []string {
	switch kind {
	case "z3":
		return []string{"z3", "-in"}
	case "z3-new":
		return []string{"z3-new", "-in"}
	case "cvc5":
		return []string{"cvc5", "--incremental", "--produce-models", "--lang=smt2"}
	}
	panic("unknown solver " + kind)
}

func NewSolver(kind string) (*Solver, error) {
	args := solverArgs(kind)
	cmd := exec.Command(args[0], args[1:]...)
	in, err := cmd.StdinPipe()
	if err != nil {
		return nil, err
	}
	out, err := cmd.StdoutPipe()
	if err != nil {
		return nil, err
	}
	cmd.Stderr = cmd.Stdout
	if err := cmd.Start(); err != nil {
		return nil, err
	}
	s := &Solver{name: kind, cmd: cmd, in: in, out: bufio.NewReaderSize(out, 1<<16)}
	s.pr = &smtPrinter{defined: map[uint32]bool{}, decls: map[string]bool{}, out: &s.buf}
	if kind == "cvc5" {
		s.buf.WriteString("(set-logic QF_BV)\n")
	}
	s.buf.WriteString("(set-option :produce-models true)\n")
	s.buf.WriteString(queryTimeoutOption(kind))
	return s, nil
}

// QueryTimeoutMS bounds every check-sat; an expired query answers unknown, which
// aborts the path as inconclusive (never as success).
var QueryTimeoutMS = 120000

func queryTimeoutOption(kind string) string {
	if QueryTimeoutMS <= 0 {
		return ""
	}
	if kind == "cvc5" {
		return fmt.Sprintf("(set-option :tlimit-per %d)\n", QueryTimeoutMS)
	}
	return fmt.Sprintf("(set-option :timeout %d)\n", QueryTimeoutMS)
}

// restart replaces a killed solver process; all solver-side state is gone.
func (s *Solver) restart() error {
	s.cmd.Wait()
	args := solverArgs(s.name)
	cmd := exec.Command(args[0], args[1:]...)
	in, err := cmd.StdinPipe()
	if err != nil {
		return err
	}
	out, err := cmd.StdoutPipe()
	if err != nil {
		return err
	}
	cmd.Stderr = cmd.Stdout
	if err := cmd.Start(); err != nil {
		return err
	}
	s.cmd, s.in, s.out = cmd, in, bufio.NewReaderSize(out, 1<<16)
	s.buf.Reset()
	s.lost = true
	return nil
}

func (s *Solver) Close() {
	s.in.Close()
	s.cmd.Process.Kill()
	s.cmd.Wait()
}

// Reset drops all assertions, declarations and definitions.
func (s *Solver) Reset() {
	if s.lost {
		s.buf.Reset()
		s.lost = false
	}
	s.buf.WriteString("(reset)\n")
	if s.name == "cvc5" {
		s.buf.WriteString("(set-logic QF_BV)\n")
	}
	s.buf.WriteString("(set-option :produce-models true)\n")
	s.buf.WriteString(queryTimeoutOption(s.name))
	s.pr.defined = map[uint32]bool{}
	s.pr.decls = map[string]bool{}
	s.depth = 0
}

func (s *Solver) Assert(t *Term) {
	if t.IsConst() && t.val != 0 {
		return
	}
	s.pr.declare(t)
	e := s.pr.expr(t)
	fmt.Fprintf(&s.buf, "(assert %s)\n", e)
}

type scopeSave struct {
	defined map[uint32]bool
	decls   map[string]bool
}

func (s *Solver) Push() scopeSave {
	s.buf.WriteString("(push 1)\n")
	sv := scopeSave{defined: map[uint32]bool{}, decls: map[string]bool{}}
	for k := range s.pr.defined {
		sv.defined[k] = true
	}
	for k := range s.pr.decls {
		sv.decls[k] = true
	}
	return sv
}

func (s *Solver) Pop(sv scopeSave) {
	if s.lost {
		return
	}
	s.buf.WriteString("(pop 1)\n")
	s.pr.defined = sv.defined
	s.pr.decls = sv.decls
}

// flush sends the buffered text followed by an echo marker and returns the
// output lines up to the marker.
func (s *Solver) flush() ([]string, error) {
	s.seq++
	marker := fmt.Sprintf("<<%d>>", s.seq)
	fmt.Fprintf(&s.buf, "(echo \"%s\")\n", marker)
	txt := s.buf.String()
	s.buf.Reset()
	if s.log != nil {
		io.WriteString(s.log, txt)
	}
	if s.lost {
		return nil, fmt.Errorf("solver state lost after a query timeout")
	}
	if _, err := io.WriteString(s.in, txt); err != nil {
		return nil, err
	}
	// Watchdog: z3 does not honour its own timeout inside bit-blasting of
	// multiplication-heavy queries; kill and replace the process instead.
	var fired bool
	var watchdog *time.Timer
	if QueryTimeoutMS > 0 {
		proc := s.cmd.Process
		watchdog = time.AfterFunc(time.Duration(QueryTimeoutMS+5000)*time.Millisecond, func() {
			fired = true
			proc.Kill()
		})
		defer watchdog.Stop()
	}
	var lines []string
	for {
		line, err := s.out.ReadString('\n')
		if err != nil {
			if fired {
				s.NKilled++
				if rerr := s.restart(); rerr != nil {
					return lines, fmt.Errorf("query timeout; solver restart failed: %v", rerr)
				}
				return lines, fmt.Errorf("query timeout after %d ms (solver process replaced)", QueryTimeoutMS+5000)
			}
			return lines, fmt.Errorf("solver died: %v (%v)", err, lines)
		}
		line = strings.TrimSpace(line)
		if line == marker || line == "\""+marker+"\"" {
			return lines, nil
		}
		if line != "" {
			lines = append(lines, line)
		}
	}
}

// Check runs check-sat on the current assertion stack.
func (s *Solver) Check() (SatResult, error) {
	t0 := time.Now()
	s.buf.WriteString("(check-sat)\n")
	lines, err := s.flush()
	s.Time += time.Since(t0)
	s.Queries++
	if err != nil {
		return Unknown, err
	}
	res := Unknown
	got := false
	for _, l := range lines {
		if strings.Contains(l, "(error") {
			s.NUnk++
			return Unknown, fmt.Errorf("solver error: %s", l)
		}
		switch l {
		case "sat":
			res, got = Sat, true
		case "unsat":
			res, got = Unsat, true
		case "unknown":
			res, got = Unknown, true
		}
	}
	if !got {
		s.NUnk++
		return Unknown, fmt.Errorf("no answer from solver: %v", lines)
	}
	switch res {
	case Sat:
		s.NSat++
	case Unsat:
		s.NUnsat++
	default:
		s.NUnk++
	}
	return res, nil
}

// Model fetches values of the given variables after a sat answer.
func (s *Solver) Model(vars []*Term) (map[string]uint64, error) {
	m := map[string]uint64{}
	if len(vars) == 0 {
		return m, nil
	}
	s.buf.WriteString("(get-value (")
	for _, v := range vars {
		s.buf.WriteString(smtSym(v.name))
		s.buf.WriteByte(' ')
	}
	s.buf.WriteString("))\n")
	t0 := time.Now()
	lines, err := s.flush()
	s.Time += time.Since(t0)
	if err != nil {
		return nil, err
	}
	txt := strings.Join(lines, " ")
	if strings.Contains(txt, "(error") {
		return nil, fmt.Errorf("solver error: %s", txt)
	}
	// parse ((|a| #x00) (|b| true) ...)
	i := 0
	for {
		j := strings.Index(txt[i:], "(|")
		if j < 0 {
			break
		}
		i += j + 2
		k := strings.IndexByte(txt[i:], '|')
		if k < 0 {
			break
		}
		name := txt[i : i+k]
		i += k + 1
		e := strings.IndexByte(txt[i:], ')')
		if e < 0 {
			break
		}
		val := strings.TrimSpace(txt[i : i+e])
		i += e
		switch {
		case val == "true":
			m[name] = 1
		case val == "false":
			m[name] = 0
		case strings.HasPrefix(val, "#x"):
			u, err := strconv.ParseUint(val[2:], 16, 64)
			if err != nil {
				return nil, err
			}
			m[name] = u
		case strings.HasPrefix(val, "#b"):
			u, err := strconv.ParseUint(val[2:], 2, 64)
			if err != nil {
				return nil, err
			}
			m[name] = u
		default:
			return nil, fmt.Errorf("cannot parse model value %q for %s", val, name)
		}
	}
	return m, nil
}
