package main

// Symbolic interpreter over go/ssa (structure adapted from
// golang.org/x/tools/go/ssa/interp, BSD licence).

import (
	"fmt"
	"go/token"
	"go/types"
	"os"
	"reflect"
	"runtime/debug"
	"strings"
	"sync"

	"golang.org/x/tools/go/ssa"
)

var debugBranch = os.Getenv("SYMGO_DEBUG_BRANCH") != ""

type continuation int

const (
	kNext continuation = iota
	kReturn
	kJump
)

// targetPanic is a Go-level panic of the interpreted program.
type targetPanic struct {
	v  value
	at string
}

type fnInfo struct {
	index map[ssa.Value]int
	n     int
}

var fnInfos sync.Map // *ssa.Function -> *fnInfo

func infoOf(fn *ssa.Function) *fnInfo {
	if v, ok := fnInfos.Load(fn); ok {
		return v.(*fnInfo)
	}
	fi := &fnInfo{index: map[ssa.Value]int{}}
	add := func(v ssa.Value) {
		fi.index[v] = fi.n
		fi.n++
	}
	for _, p := range fn.Params {
		add(p)
	}
	for _, fv := range fn.FreeVars {
		add(fv)
	}
	for _, l := range fn.Locals {
		add(l)
	}
	for _, b := range fn.Blocks {
		for _, in := range b.Instrs {
			if v, ok := in.(ssa.Value); ok {
				if _, dup := fi.index[v]; !dup {
					add(v)
				}
			}
		}
	}
	v, _ := fnInfos.LoadOrStore(fn, fi)
	return v.(*fnInfo)
}

// Interp is the per-worker interpreter state.
type Interp struct {
	prog        *ssa.Program
	w           *Worker
	p           *Path
	globals     map[*ssa.Global]*value
	pkgState    map[*ssa.Package]int // 0 untouched, 1 initialised, 2 skipped
	dirty       bool                 // a global was stored to during a path
	inInit      bool
	onceDone    map[*value]bool
	oncePath    []*value
	stubs       map[string]*ssa.Function
	errType     types.Type // runtime error type used for runtime panics
	depth       int
	mapPerm     bool
	traceOn     bool
	typeCache   map[string]types.Type
	hostTypes   map[reflect.Type]types.Type
	funcsSeen   map[*ssa.Function]bool
	tokenSeq    int
	curFrame    *frame
	syncMaps    map[*value]*omap
	initSkipped []string
}

type deferred struct {
	fn    value
	args  []value
	instr *ssa.Defer
	tail  *deferred
}

type frame struct {
	i                *Interp
	caller           *frame
	fn               *ssa.Function
	info             *fnInfo
	block, prevBlock *ssa.BasicBlock
	env              []value
	locals           []value
	defers           *deferred
	result           value
	panicking        bool
	panic            interface{}
	phitemps         []value
	curInstr         ssa.Instruction
}

func (fr *frame) f() *TermFactory { return fr.i.p.f }

func (fr *frame) set(k ssa.Value, v value) {
	fr.env[fr.info.index[k]] = v
}

func (fr *frame) get(key ssa.Value) value {
	switch key := key.(type) {
	case nil:
		return nil
	case *ssa.Function, *ssa.Builtin:
		return key
	case *ssa.Const:
		return constValue(key)
	case *ssa.Global:
		return fr.i.globalAddr(key)
	}
	if i, ok := fr.info.index[key]; ok {
		return fr.env[i]
	}
	panic(fmt.Sprintf("get: no value for %T: %v", key, key.Name()))
}

func (fr *frame) where() string {
	if fr == nil || fr.curInstr == nil {
		return ""
	}
	pos := fr.curInstr.Pos()
	if pos == token.NoPos {
		return fr.fn.String()
	}
	return fr.i.prog.Fset.Position(pos).String()
}

func (fr *frame) stack() string {
	var sb strings.Builder
	for f, n := fr, 0; f != nil && n < 12; f, n = f.caller, n+1 {
		fmt.Fprintf(&sb, "  %s (%s)\n", f.fn.String(), f.where())
	}
	return sb.String()
}

// decide resolves a boolean value (concrete or symbolic) on this path.
func (fr *frame) decide(x value) bool {
	switch x := x.(type) {
	case bool:
		return x
	case symv:
		return fr.i.p.Branch(x.t)
	}
	panic(fmt.Sprintf("decide: %T", x))
}

// concInt concretises an integer value, forking as needed.
func (fr *frame) concInt(x value) int64 {
	if s, ok := x.(symv); ok {
		v := fr.i.p.Concretize(s.t)
		if kindSigned(s.k) {
			return sext64(v, s.t.w)
		}
		return int64(v)
	}
	return asInt64(x)
}

func asInt64(x value) int64 {
	if b, k, ok := intBits(x); ok {
		if kindSigned(k) {
			return int64(b)
		}
		return int64(b)
	}
	panic(fmt.Sprintf("cannot convert %T to int64", x))
}

// rtPanic raises a Go runtime panic in the target program.
func (fr *frame) rtPanic(format string, args ...any) {
	msg := "runtime error: " + fmt.Sprintf(format, args...)
	panic(targetPanic{iface{t: fr.i.errType, v: msg}, fr.stack()})
}

func (i *Interp) globalAddr(g *ssa.Global) *value {
	if r, ok := i.globals[g]; ok {
		return r
	}
	i.lazyInit(g.Pkg, g)
	return i.globals[g]
}

func (i *Interp) allocGlobals(pkg *ssa.Package) {
	denied := !initAllowed(pkg.Pkg.Path())
	for _, m := range pkg.Members {
		if g, ok := m.(*ssa.Global); ok {
			if _, ok := i.globals[g]; !ok {
				var cell value
				if denied {
					// Globals of packages whose initialisers are not run are
					// poison: they may be copied during initialisation but any
					// later use aborts the path as unsupported.
					cell = poisonVal{pkg.Pkg.Path() + "." + g.Name()}
				} else {
					cell = zero(deref(g.Type()))
				}
				i.globals[g] = &cell
				if denied {
					hostGlobal(i, g)
				}
			}
		}
	}
}

func fnPkgPath(fn *ssa.Function) string {
	for f := fn; f != nil; f = f.Parent() {
		if f.Pkg != nil {
			return f.Pkg.Pkg.Path()
		}
		if o := f.Origin(); o != nil && o.Pkg != nil {
			return o.Pkg.Pkg.Path()
		}
	}
	if fn.Object() != nil && fn.Object().Pkg() != nil {
		return fn.Object().Pkg().Path()
	}
	return ""
}

func poisonResult(fn *ssa.Function, pkg string) value {
	res := fn.Signature.Results()
	pv := poisonVal{pkg + "." + fn.Name() + "()"}
	switch res.Len() {
	case 0:
		return nil
	case 1:
		return pv
	}
	t := make(tuple, res.Len())
	for k := range t {
		t[k] = pv
	}
	return t
}

// poisonVal marks the value of a global whose package initialiser was not run.
type poisonVal struct{ name string }

func (i *Interp) lazyInit(pkg *ssa.Package, g *ssa.Global) {
	st := i.pkgState[pkg]
	if st == 1 || st == 2 {
		return
	}
	if !initAllowed(pkg.Pkg.Path()) {
		if i.inInit {
			// During package initialisation an un-modelled global is
			// tolerated as zero (the init code may merely take its address).
			i.allocGlobals(pkg)
			i.pkgState[pkg] = 2
			return
		}
		i.allocGlobals(pkg)
		i.pkgState[pkg] = 2
		return
	}
	i.runInit(pkg)
}

func (i *Interp) runInit(pkg *ssa.Package) {
	if i.pkgState[pkg] == 1 {
		return
	}
	i.pkgState[pkg] = 1
	i.allocGlobals(pkg)
	saved := i.inInit
	i.inInit = true
	defer func() { i.inInit = saved }()
	if fn := pkg.Func("init"); fn != nil {
		call(i, nil, token.NoPos, fn, nil)
	}
}

func deref(t types.Type) types.Type {
	if p, ok := t.Underlying().(*types.Pointer); ok {
		return p.Elem()
	}
	panic(fmt.Sprintf("deref: not a pointer: %s", t))
}

func (fr *frame) runDefer(d *deferred) {
	var ok bool
	defer func() {
		if !ok {
			r := recover()
			if ap, isAbort := r.(abortPath); isAbort {
				panic(ap)
			}
			fr.panicking = true
			fr.panic = r
		}
	}()
	call(fr.i, fr, d.instr.Pos(), d.fn, d.args)
	ok = true
}

func (fr *frame) runDefers() {
	for d := fr.defers; d != nil; d = d.tail {
		fr.runDefer(d)
	}
	fr.defers = nil
	if fr.panicking {
		panic(fr.panic)
	}
}

func lookupMethod(i *Interp, typ types.Type, meth *types.Func) *ssa.Function {
	return i.prog.LookupMethod(typ, meth.Pkg(), meth.Name())
}

func visitInstr(fr *frame, instr ssa.Instruction) continuation {
	fr.curInstr = instr
	fr.i.curFrame = fr
	p := fr.i.p
	if p != nil {
		p.steps++
		if p.steps > fr.i.w.cfg.MaxSteps {
			panic(abortPath{kind: "budget", reason: "step budget exceeded"})
		}
	}
	switch instr := instr.(type) {
	case *ssa.DebugRef:
		// no-op

	case *ssa.UnOp:
		fr.set(instr, fr.unop(instr, fr.get(instr.X)))

	case *ssa.BinOp:
		fr.set(instr, fr.binop(instr.Op, instr.X.Type(), fr.get(instr.X), fr.get(instr.Y)))

	case *ssa.Call:
		fn, args := prepareCall(fr, &instr.Call)
		fr.set(instr, call(fr.i, fr, instr.Pos(), fn, args))

	case *ssa.ChangeInterface:
		fr.set(instr, fr.get(instr.X))

	case *ssa.ChangeType:
		fr.set(instr, fr.get(instr.X))

	case *ssa.Convert:
		fr.set(instr, fr.conv(instr.Type(), instr.X.Type(), fr.get(instr.X)))

	case *ssa.MultiConvert:
		fr.set(instr, fr.conv(instr.Type(), instr.X.Type(), fr.get(instr.X)))

	case *ssa.SliceToArrayPointer:
		fr.set(instr, fr.sliceToArrayPointer(instr.Type(), instr.X.Type(), fr.get(instr.X)))

	case *ssa.MakeInterface:
		fr.set(instr, iface{t: instr.X.Type(), v: fr.get(instr.X)})

	case *ssa.Extract:
		fr.set(instr, fr.get(instr.Tuple).(tuple)[instr.Index])

	case *ssa.Slice:
		fr.set(instr, fr.slice(instr, fr.get(instr.X), fr.get(instr.Low), fr.get(instr.High), fr.get(instr.Max)))

	case *ssa.Return:
		switch len(instr.Results) {
		case 0:
		case 1:
			fr.result = fr.get(instr.Results[0])
		default:
			res := make([]value, 0, len(instr.Results))
			for _, r := range instr.Results {
				res = append(res, fr.get(r))
			}
			fr.result = tuple(res)
		}
		fr.block = nil
		return kReturn

	case *ssa.RunDefers:
		fr.runDefers()

	case *ssa.Panic:
		panic(targetPanic{fr.get(instr.X), fr.stack()})

	case *ssa.Send:
		panic(unsupported("channel send"))

	case *ssa.Store:
		addr := fr.get(instr.Addr)
		pa, ok := addr.(*value)
		if !ok {
			panic(unsupported("store through %T at %s", addr, fr.where()))
		}
		if pa == nil {
			fr.rtPanic("invalid memory address or nil pointer dereference")
		}
		if _, isG := instr.Addr.(*ssa.Global); isG && !fr.i.inInit {
			fr.i.dirty = true
		}
		store(deref(instr.Addr.Type()), pa, fr.get(instr.Val))

	case *ssa.If:
		succ := 1
		if fr.decide(fr.get(instr.Cond)) {
			succ = 0
		}
		fr.prevBlock, fr.block = fr.block, fr.block.Succs[succ]
		return kJump

	case *ssa.Jump:
		fr.prevBlock, fr.block = fr.block, fr.block.Succs[0]
		return kJump

	case *ssa.Defer:
		fn, args := prepareCall(fr, &instr.Call)
		defers := &fr.defers
		if instr.DeferStack != nil {
			if into := fr.get(instr.DeferStack); into != nil {
				defers = into.(**deferred)
			}
		}
		*defers = &deferred{fn: fn, args: args, instr: instr, tail: *defers}

	case *ssa.Go:
		panic(unsupported("go statement at %s", fr.where()))

	case *ssa.MakeChan:
		panic(unsupported("make(chan) at %s", fr.where()))

	case *ssa.Alloc:
		var addr *value
		if instr.Heap {
			addr = new(value)
			fr.set(instr, addr)
		} else {
			addr = fr.get(instr).(*value)
		}
		*addr = zero(deref(instr.Type()))

	case *ssa.MakeSlice:
		n := fr.concInt(fr.get(instr.Len))
		c := fr.concInt(fr.get(instr.Cap))
		if n < 0 || n > 1<<24 {
			fr.rtPanic("makeslice: len out of range")
		}
		if c < n || c > 1<<24 {
			fr.rtPanic("makeslice: cap out of range")
		}
		sl := make([]value, c)
		tElt := instr.Type().Underlying().(*types.Slice).Elem()
		for i := range sl {
			sl[i] = zero(tElt)
		}
		fr.set(instr, sl[:n])

	case *ssa.MakeMap:
		fr.set(instr, newOmap(instr.Type().Underlying().(*types.Map).Key()))

	case *ssa.Range:
		fr.set(instr, fr.rangeIter(fr.get(instr.X), instr.X.Type()))

	case *ssa.Next:
		fr.set(instr, fr.get(instr.Iter).(iter).next(fr))

	case *ssa.FieldAddr:
		x := fr.get(instr.X)
		px, ok := x.(*value)
		if !ok {
			panic(unsupported("field access on %T (%s) at %s", x, instr.X.Type(), fr.where()))
		}
		if px == nil {
			fr.rtPanic("invalid memory address or nil pointer dereference")
		}
		st, ok := (*px).(structure)
		if !ok {
			panic(unsupported("field access on host value %T (%s) at %s", *px, instr.X.Type(), fr.where()))
		}
		fr.set(instr, &st[instr.Field])

	case *ssa.Field:
		x := fr.get(instr.X)
		st, ok := x.(structure)
		if !ok {
			panic(unsupported("field read on %T (%s) at %s", x, instr.X.Type(), fr.where()))
		}
		fr.set(instr, st[instr.Field])

	case *ssa.IndexAddr:
		x := fr.get(instr.X)
		switch x := x.(type) {
		case []value:
			i := fr.checkedIndex(fr.get(instr.Index), len(x))
			fr.set(instr, &x[i])
		case *value: // *array
			if x == nil {
				fr.rtPanic("invalid memory address or nil pointer dereference")
			}
			a := (*x).(array)
			i := fr.checkedIndex(fr.get(instr.Index), len(a))
			fr.set(instr, &a[i])
		default:
			panic(fmt.Sprintf("unexpected x type in IndexAddr: %T", x))
		}

	case *ssa.Index:
		x := fr.get(instr.X)
		idx := fr.get(instr.Index)
		switch x := x.(type) {
		case array:
			fr.set(instr, fr.indexRead([]value(x), idx))
		case string:
			if s, ok := idx.(symv); ok {
				_ = s
				fr.set(instr, fr.indexRead(strBytes(x), idx))
			} else {
				i := fr.checkedIndex(idx, len(x))
				fr.set(instr, x[i])
			}
		case *sstr:
			fr.set(instr, fr.indexRead(x.b, idx))
		default:
			panic(fmt.Sprintf("unexpected x type in Index: %T", x))
		}

	case *ssa.Lookup:
		fr.set(instr, fr.lookup(instr, fr.get(instr.X), fr.get(instr.Index)))

	case *ssa.MapUpdate:
		m, ok := fr.get(instr.Map).(*omap)
		if !ok {
			panic(fmt.Sprintf("illegal map type: %T", fr.get(instr.Map)))
		}
		if m == nil {
			panic(targetPanic{iface{t: fr.i.errType, v: "assignment to entry in nil map"}, fr.stack()})
		}
		m.insert(fr, copyVal(fr.get(instr.Key)), fr.get(instr.Value))

	case *ssa.TypeAssert:
		x := fr.get(instr.X)
		itf, ok := x.(iface)
		if !ok {
			panic(fmt.Sprintf("TypeAssert on %T", x))
		}
		fr.set(instr, typeAssert(fr, instr, itf))

	case *ssa.MakeClosure:
		bindings := make([]value, 0, len(instr.Bindings))
		for _, binding := range instr.Bindings {
			bindings = append(bindings, fr.get(binding))
		}
		fr.set(instr, &closure{instr.Fn.(*ssa.Function), bindings})

	case *ssa.Phi:
		panic("unreachable: phi")

	case *ssa.Select:
		panic(unsupported("select at %s", fr.where()))

	default:
		panic(fmt.Sprintf("unexpected instruction: %T", instr))
	}
	return kNext
}

// inBoundsTerm: 0 <= idx < n for an index of the width of its type. A length that the type cannot
// reach (a byte indexing a 256-entry table) bounds nothing: the constant must not wrap to 0.
func inBoundsTerm(f *TermFactory, s symv, n int) *Term {
	w := s.t.w
	if kindSigned(s.k) {
		lo := f.Bin(OpSle, f.Const(w, 0), s.t)
		if w < 64 && uint64(n) >= uint64(1)<<(w-1) {
			return lo
		}
		return f.And(lo, f.Bin(OpSlt, s.t, f.Const(w, uint64(n))))
	}
	if w < 64 && uint64(n) >= uint64(1)<<w {
		return f.True
	}
	return f.Bin(OpUlt, s.t, f.Const(w, uint64(n)))
}

// checkedIndex resolves an index value against a length, raising the Go
// runtime panic when out of range (forking when symbolic).
func (fr *frame) checkedIndex(idx value, n int) int {
	if s, ok := idx.(symv); ok {
		f := fr.f()
		inb := inBoundsTerm(f, s, n)
		if !fr.i.p.Branch(inb) {
			fr.rtPanic("index out of range [symbolic] with length %d", n)
		}
		return int(fr.concInt(idx))
	}
	i := asInt64(idx)
	if i < 0 || i >= int64(n) {
		fr.rtPanic("index out of range [%d] with length %d", i, n)
	}
	return int(i)
}

// indexRead reads elems[idx]; a symbolic index over scalar elements becomes
// an ITE chain, otherwise the index is case-split.
func (fr *frame) indexRead(elems []value, idx value) value {
	s, ok := idx.(symv)
	if !ok {
		return elems[fr.checkedIndex(idx, len(elems))]
	}
	f := fr.f()
	n := len(elems)
	w := s.t.w
	var inb *Term
	inb = inBoundsTerm(f, s, n)
	if !fr.i.p.Branch(inb) {
		fr.rtPanic("index out of range [symbolic] with length %d", n)
	}
	// all scalar?
	var k types.BasicKind
	scalar := n > 0 && n <= 512
	for i, e := range elems {
		_, ek, ok := termOf(f, e)
		if !ok {
			scalar = false
			break
		}
		if i == 0 {
			k = ek
		} else if ek != k {
			scalar = false
			break
		}
	}
	if !scalar {
		return elems[int(fr.concInt(idx))]
	}
	t0, _, _ := termOf(f, elems[n-1])
	r := t0
	for i := n - 2; i >= 0; i-- {
		ti, _, _ := termOf(f, elems[i])
		r = f.Ite(f.Eq(s.t, f.Const(w, uint64(i))), ti, r)
	}
	return mkScalar(r, k)
}

func prepareCall(fr *frame, call *ssa.CallCommon) (fn value, args []value) {
	v := fr.get(call.Value)
	if call.Method == nil {
		fn = v
	} else {
		recv := v.(iface)
		if recv.t == nil {
			fr.rtPanic("invalid memory address or nil pointer dereference (method %s on nil interface)", call.Method.Name())
		}
		if rt, ok := recv.v.(rtype); ok {
			fn = &rtypeMethod{rt: rt, name: call.Method.Name()}
			for _, arg := range call.Args {
				args = append(args, fr.get(arg))
			}
			return
		}
		if n, ok := recv.v.(native); ok {
			if _, isHostErr := recv.t.(*hostType); isHostErr {
				fn = &hostMethod{recv: n, name: call.Method.Name(), sig: call.Method.Type().(*types.Signature)}
				for _, arg := range call.Args {
					args = append(args, fr.get(arg))
				}
				return
			}
		}
		f := lookupMethod(fr.i, recv.t, call.Method)
		if f == nil {
			if n, ok := recv.v.(native); ok {
				fn = &hostMethod{recv: n, name: call.Method.Name(), sig: call.Method.Type().(*types.Signature)}
				for _, arg := range call.Args {
					args = append(args, fr.get(arg))
				}
				return
			}
			panic(fmt.Sprintf("method set for dynamic type %v does not contain %s", recv.t, call.Method))
		}
		fn = f
		args = append(args, recv.v)
	}
	for _, arg := range call.Args {
		args = append(args, fr.get(arg))
	}
	return
}

func call(i *Interp, caller *frame, callpos token.Pos, fn value, args []value) value {
	switch fn := fn.(type) {
	case *ssa.Function:
		if fn == nil {
			if caller != nil {
				caller.rtPanic("invalid memory address or nil pointer dereference (call of nil func)")
			}
			panic("call of nil function")
		}
		return callSSA(i, caller, callpos, fn, args, nil)
	case *closure:
		return callSSA(i, caller, callpos, fn.Fn, args, fn.Env)
	case *ssa.Builtin:
		return callBuiltin(caller, callpos, fn, args)
	case *hostMethod:
		return fn.call(i, caller, args)
	case *hostFunc:
		return fn.call(i, caller, args)
	case *rtypeMethod:
		return callRTypeMethod(caller, fn.rt, fn.name, args)
	}
	panic(fmt.Sprintf("cannot call %T", fn))
}

func callSSA(i *Interp, caller *frame, callpos token.Pos, fn *ssa.Function, args []value, env []value) value {
	i.depth++
	defer func() { i.depth-- }()
	if i.depth > 400 {
		panic(abortPath{kind: "budget", reason: "call depth exceeded in " + fn.String()})
	}
	fr := &frame{i: i, caller: caller, fn: fn}
	if fn.Parent() == nil {
		name := fn.String()
		if i.traceOn {
			fmt.Printf("%*scall %s\n", i.depth, "", name)
		}
		if st := i.stubs[name]; st != nil && st != fn {
			i.w.stubsUsed[name] = true
			return callSSA(i, caller, callpos, st, args, nil)
		}
		if fn.Synthetic == "package initializer" {
			if !initAllowed(fn.Pkg.Pkg.Path()) {
				if i.pkgState[fn.Pkg] == 0 {
					i.allocGlobals(fn.Pkg)
					i.pkgState[fn.Pkg] = 2
				}
				return nil
			}
			if i.pkgState[fn.Pkg] == 0 || i.pkgState[fn.Pkg] == 2 {
				i.pkgState[fn.Pkg] = 1
				i.allocGlobals(fn.Pkg)
			}
		}
		if r, handled := i.tryExternal(fr, fn, name, args); handled {
			return r
		}
		if i.inInit {
			if pp := fnPkgPath(fn); pp != "" && !initAllowed(pp) {
				// Initialisers calling into packages that are not modelled
				// (HCL, cty, ...): the result is poison, any later use aborts.
				return poisonResult(fn, pp)
			}
		}
		if fn.Blocks == nil {
			// assembly kernels with a pure Go twin in the same package (math/big: addVV -> addVV_g, ...)
			if fn.Pkg != nil {
				if g := fn.Pkg.Func(fn.Name() + "_g"); g != nil && g.Blocks != nil && types.Identical(g.Signature, fn.Signature) {
					return callSSA(i, caller, callpos, g, args, nil)
				}
			}
			panic(unsupported("no code for function %s (called from %s)", name, caller.where()))
		}
	}
	if fn.TypeParams().Len() > 0 && len(fn.TypeArgs()) == 0 {
		panic(unsupported("uninstantiated generic function %s", fn))
	}
	if i.w != nil {
		if !i.funcsSeen[fn] {
			i.funcsSeen[fn] = true
		}
	}
	if i.inInit && strings.HasPrefix(fn.Name(), "init#") && fn.Parent() == nil {
		// A user init function that reaches un-modelled territory (cobra command
		// trees, ORM runtime hooks) is abandoned; what it would have set up stays
		// unset and is reported in the result (init_skipped).
		defer func() {
			if r := recover(); r != nil {
				if ap, ok := r.(abortPath); ok && ap.kind == "unsupported" {
					i.initSkipped = append(i.initSkipped, fnPkgPath(fn)+"."+fn.Name()+": "+ap.reason)
					return
				}
				panic(r)
			}
		}()
	}
	fi := infoOf(fn)
	fr.info = fi
	fr.env = make([]value, fi.n)
	fr.block = fn.Blocks[0]
	fr.locals = make([]value, len(fn.Locals))
	for k, l := range fn.Locals {
		fr.locals[k] = zero(deref(l.Type()))
		fr.env[fi.index[l]] = &fr.locals[k]
	}
	if len(args) != len(fn.Params) {
		panic(fmt.Sprintf("call %s: %d args for %d params", fn, len(args), len(fn.Params)))
	}
	for k, p := range fn.Params {
		fr.env[fi.index[p]] = args[k]
	}
	for k, fv := range fn.FreeVars {
		fr.env[fi.index[fv]] = env[k]
	}
	for fr.block != nil {
		runFrame(fr)
	}
	return fr.result
}

func runFrame(fr *frame) {
	defer func() {
		if fr.block == nil {
			return // normal return
		}
		r := recover()
		switch r := r.(type) {
		case abortPath:
			panic(r)
		case targetPanic:
			// fall through to defers
		default:
			// An interpreter-level crash: never treat as target behaviour.
			if ie, ok := r.(internalError); ok {
				panic(ie)
			}
			panic(internalError{msg: fmt.Sprint(r), stack: fr.stack() + string(debug.Stack())})
		}
		fr.panicking = true
		fr.panic = r
		fr.runDefers()
		fr.block = fr.fn.Recover
		if fr.block == nil {
			// recovered in a function without named results: zero results
			fr.result = zeroResults(fr.fn)
		}
	}()
	for {
		nonPhis := executePhis(fr)
		for _, instr := range nonPhis {
			if visitInstr(fr, instr) == kReturn {
				return
			}
		}
	}
}

type internalError struct {
	msg   string
	stack string
}

func zeroResults(fn *ssa.Function) value {
	res := fn.Signature.Results()
	switch res.Len() {
	case 0:
		return nil
	case 1:
		return zero(res.At(0).Type())
	}
	return zero(res)
}

func executePhis(fr *frame) []ssa.Instruction {
	firstNonPhi := -1
	for i, instr := range fr.block.Instrs {
		if _, ok := instr.(*ssa.Phi); !ok {
			firstNonPhi = i
			break
		}
	}
	nonPhis := fr.block.Instrs[firstNonPhi:]
	if firstNonPhi > 0 {
		phis := fr.block.Instrs[:firstNonPhi]
		predIndex := -1
		for k, b := range fr.block.Preds {
			if b == fr.prevBlock {
				predIndex = k
				break
			}
		}
		fr.phitemps = fr.phitemps[:0]
		for _, phi := range phis {
			phi := phi.(*ssa.Phi)
			fr.phitemps = append(fr.phitemps, fr.get(phi.Edges[predIndex]))
		}
		for i, phi := range phis {
			fr.set(phi.(*ssa.Phi), fr.phitemps[i])
		}
	}
	return nonPhis
}

func doRecover(caller *frame) value {
	if caller != nil && !caller.panicking &&
		caller.caller != nil && caller.caller.panicking {
		caller.caller.panicking = false
		p := caller.caller.panic
		caller.caller.panic = nil
		switch p := p.(type) {
		case targetPanic:
			return p.v
		default:
			panic(fmt.Sprintf("unexpected panic type %T in target call to recover()", p))
		}
	}
	return iface{}
}

// panicString renders a target panic value for reports.
func (i *Interp) panicString(fr *frame, v value) string {
	if it, ok := v.(iface); ok {
		if s, ok := it.v.(string); ok {
			return s
		}
		if it.t != nil {
			// error value: try calling Error()
			func() {
				defer func() { recover() }()
				if s, ok := i.errorString(fr, it); ok {
					v = s
				}
			}()
		}
	}
	return toString(v)
}
