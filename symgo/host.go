package main

// Host bridge: running allow-listed pure standard-library functions natively
// on concrete arguments (an optimisation of interpreting them from source),
// and carrying opaque host values (regexps, templates, replacers, ...).

import (
	"fmt"
	"go/types"
	"reflect"
	"strings"

	"golang.org/x/tools/go/ssa"
)

// hostType is the types.Type of a host value whose Go type has no
// counterpart in the loaded program.
type hostType struct {
	rt reflect.Type
}

func (h *hostType) Underlying() types.Type { return h }
func (h *hostType) String() string         { return "host:" + h.rt.String() }

func (h *hostType) implements(it *types.Interface) bool {
	for k := 0; k < it.NumMethods(); k++ {
		if _, ok := h.rt.MethodByName(it.Method(k).Name()); !ok {
			return false
		}
	}
	return true
}

var hostTypeIntern = map[reflect.Type]*hostType{}

// identical is types.Identical tolerant of host types.
func identical(a, b types.Type) bool {
	_, ha := a.(*hostType)
	_, hb := b.(*hostType)
	if ha || hb {
		return a == b
	}
	return types.Identical(a, b)
}

// hostErr adapts an interpreted error value to a host error.
type hostErr struct {
	i  *Interp
	fr *frame
	v  iface
}

func (e *hostErr) Error() string {
	s, ok := e.i.errorString(e.fr, e.v)
	if !ok {
		panic(unsupported("Error() of interpreted error returned symbolic text inside host code"))
	}
	return s
}

func (e *hostErr) Unwrap() error {
	u := e.i.unwrapErr(e.fr, e.v)
	if u.t == nil {
		return nil
	}
	if n, ok := u.v.(native); ok {
		if he, ok := n.x.(error); ok {
			return he
		}
	}
	return &hostErr{e.i, e.fr, u}
}

type hostStringer struct {
	i  *Interp
	fr *frame
	v  iface
}

func (e *hostStringer) String() string {
	m := e.i.findMethod(e.v.t, "String")
	r := call(e.i, e.fr, 0, m, []value{e.v.v})
	s, ok := r.(string)
	if !ok {
		panic(unsupported("String() returned symbolic text inside host code"))
	}
	return s
}

func (i *Interp) findMethod(t types.Type, name string) *ssa.Function {
	if t == nil {
		return nil
	}
	if _, ok := t.(*hostType); ok {
		return nil
	}
	ms := i.prog.MethodSets.MethodSet(t)
	for k := 0; k < ms.Len(); k++ {
		sel := ms.At(k)
		if sel.Obj().Name() == name {
			return i.prog.MethodValue(sel)
		}
	}
	return nil
}

// errorString calls Error() on an interpreted error value.
func (i *Interp) errorString(fr *frame, e iface) (string, bool) {
	if e.t == nil {
		return "<nil>", true
	}
	if n, ok := e.v.(native); ok {
		if he, ok := n.x.(error); ok {
			return he.Error(), true
		}
	}
	m := i.findMethod(e.t, "Error")
	if m == nil {
		return "", false
	}
	r := call(i, fr, 0, m, []value{e.v})
	s, ok := r.(string)
	return s, ok
}

func (i *Interp) errorValue(fr *frame, e iface) value {
	if e.t == nil {
		return "<nil>"
	}
	if n, ok := e.v.(native); ok {
		if he, ok := n.x.(error); ok {
			return he.Error()
		}
	}
	m := i.findMethod(e.t, "Error")
	if m == nil {
		panic(fmt.Sprintf("no Error method on %s", e.t))
	}
	return call(i, fr, 0, m, []value{e.v})
}

// unwrapErr calls Unwrap() error if present.
func (i *Interp) unwrapErr(fr *frame, e iface) iface {
	if e.t == nil {
		return iface{}
	}
	if n, ok := e.v.(native); ok {
		if u, ok := n.x.(interface{ Unwrap() error }); ok {
			return i.errFromHost(u.Unwrap())
		}
		return iface{}
	}
	m := i.findMethod(e.t, "Unwrap")
	if m == nil {
		return iface{}
	}
	res := m.Signature.Results()
	if res.Len() != 1 || !types.Identical(res.At(0).Type(), types.Universe.Lookup("error").Type()) {
		return iface{}
	}
	r := call(i, fr, 0, m, []value{e.v})
	return r.(iface)
}

func (i *Interp) errFromHost(e error) iface {
	if e == nil {
		return iface{}
	}
	if he, ok := e.(*hostErr); ok {
		return he.v
	}
	return iface{t: i.typeOfHost(reflect.TypeOf(e)), v: native{e}}
}

// typeOfHost maps a reflect.Type to the program's types.Type when the
// defining package is loaded; otherwise to an interned hostType.
func (i *Interp) typeOfHost(rt reflect.Type) types.Type {
	if t, ok := i.hostTypes[rt]; ok {
		return t
	}
	var t types.Type
	switch rt.Kind() {
	case reflect.Bool:
		t = types.Typ[types.Bool]
	case reflect.Int:
		t = types.Typ[types.Int]
	case reflect.Int8:
		t = types.Typ[types.Int8]
	case reflect.Int16:
		t = types.Typ[types.Int16]
	case reflect.Int32:
		t = types.Typ[types.Int32]
	case reflect.Int64:
		t = types.Typ[types.Int64]
	case reflect.Uint:
		t = types.Typ[types.Uint]
	case reflect.Uint8:
		t = types.Typ[types.Uint8]
	case reflect.Uint16:
		t = types.Typ[types.Uint16]
	case reflect.Uint32:
		t = types.Typ[types.Uint32]
	case reflect.Uint64:
		t = types.Typ[types.Uint64]
	case reflect.Uintptr:
		t = types.Typ[types.Uintptr]
	case reflect.Float32:
		t = types.Typ[types.Float32]
	case reflect.Float64:
		t = types.Typ[types.Float64]
	case reflect.String:
		t = types.Typ[types.String]
	}
	if rt.PkgPath() != "" && rt.Name() != "" {
		t = nil
		if pkg := i.prog.ImportedPackage(rt.PkgPath()); pkg != nil {
			if m := pkg.Type(rt.Name()); m != nil {
				t = m.Type()
			}
		}
	} else if t == nil {
		switch rt.Kind() {
		case reflect.Ptr:
			if e := i.typeOfHost(rt.Elem()); e != nil {
				if _, isHost := e.(*hostType); !isHost {
					t = types.NewPointer(e)
				}
			}
		case reflect.Slice:
			if e := i.typeOfHost(rt.Elem()); e != nil {
				if _, isHost := e.(*hostType); !isHost {
					t = types.NewSlice(e)
				}
			}
		}
	}
	if t == nil {
		ht := hostTypeIntern[rt]
		if ht == nil {
			ht = &hostType{rt}
			hostTypeIntern[rt] = ht
		}
		t = ht
	}
	i.hostTypes[rt] = t
	return t
}

var errorRT = reflect.TypeOf((*error)(nil)).Elem()

// toHost converts an interpreter value to a host value of type rt.
func (i *Interp) toHost(fr *frame, v value, rt reflect.Type) (rv reflect.Value, ok bool) {
	defer func() {
		if r := recover(); r != nil {
			if ap, isAbort := r.(abortPath); isAbort {
				panic(ap)
			}
			ok = false
		}
	}()
	switch v := v.(type) {
	case symv, *sstr:
		return rv, false
	case native:
		x := reflect.ValueOf(v.x)
		if !x.IsValid() {
			return reflect.Zero(rt), true
		}
		if x.Type().AssignableTo(rt) {
			return x, true
		}
		if x.Type().ConvertibleTo(rt) {
			return x.Convert(rt), true
		}
		return rv, false
	}
	switch rt.Kind() {
	case reflect.Bool, reflect.Int, reflect.Int8, reflect.Int16, reflect.Int32, reflect.Int64,
		reflect.Uint, reflect.Uint8, reflect.Uint16, reflect.Uint32, reflect.Uint64, reflect.Uintptr,
		reflect.Float32, reflect.Float64, reflect.String:
		x := reflect.ValueOf(v)
		if !x.IsValid() || !x.Type().ConvertibleTo(rt) {
			return rv, false
		}
		if x.Kind() != rt.Kind() {
			return rv, false
		}
		return x.Convert(rt), true
	case reflect.Slice:
		s, isSlice := v.([]value)
		if !isSlice {
			return rv, false
		}
		if s == nil {
			return reflect.Zero(rt), true
		}
		out := reflect.MakeSlice(rt, len(s), len(s))
		for k, e := range s {
			ev, ok := i.toHost(fr, e, rt.Elem())
			if !ok {
				return rv, false
			}
			out.Index(k).Set(ev)
		}
		return out, true
	case reflect.Array:
		s, isArr := v.(array)
		if !isArr {
			return rv, false
		}
		out := reflect.New(rt).Elem()
		for k, e := range s {
			ev, ok := i.toHost(fr, e, rt.Elem())
			if !ok {
				return rv, false
			}
			out.Index(k).Set(ev)
		}
		return out, true
	case reflect.Interface:
		it, isIface := v.(iface)
		if !isIface {
			return rv, false
		}
		if it.t == nil {
			return reflect.Zero(rt), true
		}
		if n, isN := it.v.(native); isN {
			x := reflect.ValueOf(n.x)
			if x.IsValid() && x.Type().AssignableTo(rt) {
				return x, true
			}
			return rv, false
		}
		if _, isHost := it.t.(*hostType); !isHost {
			if i.findMethod(it.t, "Error") != nil {
				x := reflect.ValueOf(&hostErr{i, fr, it})
				if x.Type().AssignableTo(rt) {
					return x, true
				}
			}
			if rt.NumMethod() == 0 || rt.NumMethod() == 1 && rt.Method(0).Name == "String" {
				if m := i.findMethod(it.t, "String"); m != nil && m.Signature.Params().Len() == 0 {
					return reflect.ValueOf(&hostStringer{i, fr, it}), true
				}
			}
		}
		if rt.NumMethod() != 0 {
			return rv, false
		}
		// plain data into interface{}
		switch dv := it.v.(type) {
		case bool, int, int8, int16, int32, int64, uint, uint8, uint16, uint32, uint64, uintptr, float32, float64, string:
			return reflect.ValueOf(dv), true
		case []value:
			st, isS := it.t.Underlying().(*types.Slice)
			if !isS {
				return rv, false
			}
			ert := hostBasicRT(st.Elem())
			if ert == nil {
				return rv, false
			}
			return i.toHost(fr, dv, reflect.SliceOf(ert))
		case *value:
			if dv == nil {
				return reflect.ValueOf((*int)(nil)), true // typed nil pointer (prints <nil>)
			}
		}
		return rv, false
	case reflect.Func:
		switch v.(type) {
		case *ssa.Function, *closure:
		default:
			return rv, false
		}
		if f, isF := v.(*ssa.Function); isF && f == nil {
			return reflect.Zero(rt), true
		}
		var sig *types.Signature
		switch f := v.(type) {
		case *ssa.Function:
			sig = f.Signature
		case *closure:
			sig = f.Fn.Signature
		}
		fnv := v
		mf := reflect.MakeFunc(rt, func(in []reflect.Value) []reflect.Value {
			args := make([]value, len(in))
			for k := range in {
				args[k] = i.fromHost(in[k], sig.Params().At(k).Type())
			}
			r := call(i, fr, 0, fnv, args)
			out := make([]reflect.Value, rt.NumOut())
			switch rt.NumOut() {
			case 0:
			case 1:
				ov, ok := i.toHost(fr, r, rt.Out(0))
				if !ok {
					panic(unsupported("symbolic result returned from callback into host code (%s)", rt))
				}
				out[0] = ov
			default:
				tup := r.(tuple)
				for k := range out {
					ov, ok := i.toHost(fr, tup[k], rt.Out(k))
					if !ok {
						panic(unsupported("symbolic result returned from callback into host code (%s)", rt))
					}
					out[k] = ov
				}
			}
			return out
		})
		return mf, true
	case reflect.Ptr:
		if p, isP := v.(*value); isP && p == nil {
			return reflect.Zero(rt), true
		}
		return rv, false
	case reflect.Map:
		if m, isM := v.(*omap); isM {
			out := reflect.MakeMapWithSize(rt, m.len())
			if m == nil {
				return reflect.Zero(rt), true
			}
			for k := range m.keys {
				kv, ok := i.toHost(fr, m.keys[k], rt.Key())
				if !ok {
					return rv, false
				}
				ev, ok := i.toHost(fr, m.vals[k], rt.Elem())
				if !ok {
					return rv, false
				}
				out.SetMapIndex(kv, ev)
			}
			return out, true
		}
		return rv, false
	case reflect.Struct:
		// zero structs only (e.g. time.Time{})
		if s, isS := v.(structure); isS && isZeroValue(s) {
			return reflect.Zero(rt), true
		}
		return rv, false
	}
	return rv, false
}

func isZeroValue(v value) bool {
	switch v := v.(type) {
	case structure:
		for _, e := range v {
			if !isZeroValue(e) {
				return false
			}
		}
		return true
	case array:
		for _, e := range v {
			if !isZeroValue(e) {
				return false
			}
		}
		return true
	case bool:
		return !v
	case string:
		return v == ""
	case *value:
		return v == nil
	case []value:
		return v == nil
	case iface:
		return v.t == nil
	case *omap:
		return v == nil
	case float64:
		return v == 0
	case float32:
		return v == 0
	}
	if b, _, ok := intBits(v); ok {
		return b == 0
	}
	return false
}

func hostBasicRT(t types.Type) reflect.Type {
	b, ok := t.Underlying().(*types.Basic)
	if !ok {
		return nil
	}
	switch b.Kind() {
	case types.Bool:
		return reflect.TypeOf(false)
	case types.Int:
		return reflect.TypeOf(int(0))
	case types.Int8:
		return reflect.TypeOf(int8(0))
	case types.Int16:
		return reflect.TypeOf(int16(0))
	case types.Int32:
		return reflect.TypeOf(int32(0))
	case types.Int64:
		return reflect.TypeOf(int64(0))
	case types.Uint:
		return reflect.TypeOf(uint(0))
	case types.Uint8:
		return reflect.TypeOf(uint8(0))
	case types.Uint16:
		return reflect.TypeOf(uint16(0))
	case types.Uint32:
		return reflect.TypeOf(uint32(0))
	case types.Uint64:
		return reflect.TypeOf(uint64(0))
	case types.Float32:
		return reflect.TypeOf(float32(0))
	case types.Float64:
		return reflect.TypeOf(float64(0))
	case types.String:
		return reflect.TypeOf("")
	}
	return nil
}

// fromHost converts a host value to an interpreter value of static type t
// (t may be nil: inferred from the dynamic host type).
func (i *Interp) fromHost(rv reflect.Value, t types.Type) value {
	if !rv.IsValid() {
		if t != nil {
			return zero(t)
		}
		return iface{}
	}
	if t != nil {
		if _, isIface := t.Underlying().(*types.Interface); isIface && rv.Kind() != reflect.Interface {
			// static interface type, dynamic concrete value
			return i.ifaceFromHost(rv)
		}
	}
	switch rv.Kind() {
	case reflect.Bool:
		return rv.Bool()
	case reflect.Int, reflect.Int8, reflect.Int16, reflect.Int32, reflect.Int64:
		return mkInt(hostIntKind(rv.Kind(), t), uint64(rv.Int()))
	case reflect.Uint, reflect.Uint8, reflect.Uint16, reflect.Uint32, reflect.Uint64, reflect.Uintptr:
		return mkInt(hostIntKind(rv.Kind(), t), rv.Uint())
	case reflect.Float32:
		return float32(rv.Float())
	case reflect.Float64:
		return rv.Float()
	case reflect.String:
		return rv.String()
	case reflect.Slice:
		if rv.IsNil() {
			return []value(nil)
		}
		var et types.Type
		if t != nil {
			if st, ok := t.Underlying().(*types.Slice); ok {
				et = st.Elem()
			}
		}
		out := make([]value, rv.Len())
		for k := range out {
			out[k] = i.fromHost(rv.Index(k), et)
		}
		return out
	case reflect.Array:
		var et types.Type
		if t != nil {
			if at, ok := t.Underlying().(*types.Array); ok {
				et = at.Elem()
			}
		}
		out := make(array, rv.Len())
		for k := range out {
			out[k] = i.fromHost(rv.Index(k), et)
		}
		return out
	case reflect.Interface:
		if rv.IsNil() {
			return iface{}
		}
		return i.ifaceFromHost(rv.Elem())
	case reflect.Ptr:
		if rv.IsNil() {
			return (*value)(nil)
		}
		if he, ok := rv.Interface().(*hostErr); ok {
			return he.v
		}
		return native{rv.Interface()}
	case reflect.Func:
		if rv.IsNil() {
			return (*ssa.Function)(nil)
		}
		return &hostFunc{rv}
	case reflect.Map:
		if rv.IsNil() {
			return (*omap)(nil)
		}
		if t != nil {
			if mt, ok := t.Underlying().(*types.Map); ok {
				m := newOmap(mt.Key())
				keys := rv.MapKeys()
				// deterministic order
				sortReflectKeys(keys)
				for _, k := range keys {
					m.keys = append(m.keys, i.fromHost(k, mt.Key()))
					m.vals = append(m.vals, i.fromHost(rv.MapIndex(k), mt.Elem()))
				}
				m.rebuild()
				return m
			}
		}
		return native{rv.Interface()}
	}
	if rv.CanInterface() {
		return native{rv.Interface()}
	}
	panic(unsupported("host value of kind %s cannot be imported", rv.Kind()))
}

func sortReflectKeys(keys []reflect.Value) {
	for a := 1; a < len(keys); a++ {
		for b := a; b > 0 && fmt.Sprint(keys[b].Interface()) < fmt.Sprint(keys[b-1].Interface()); b-- {
			keys[b], keys[b-1] = keys[b-1], keys[b]
		}
	}
}

func hostIntKind(k reflect.Kind, t types.Type) types.BasicKind {
	if t != nil {
		if bk, ok := basicKind(t); ok && bk != types.String && bk != types.Bool {
			switch bk {
			case types.UntypedInt:
				return types.Int
			case types.UntypedRune:
				return types.Int32
			}
			if _, isInt := map[types.BasicKind]bool{types.Int: true, types.Int8: true, types.Int16: true, types.Int32: true, types.Int64: true,
				types.Uint: true, types.Uint8: true, types.Uint16: true, types.Uint32: true, types.Uint64: true, types.Uintptr: true}[bk]; isInt {
				return bk
			}
		}
	}
	switch k {
	case reflect.Int:
		return types.Int
	case reflect.Int8:
		return types.Int8
	case reflect.Int16:
		return types.Int16
	case reflect.Int32:
		return types.Int32
	case reflect.Int64:
		return types.Int64
	case reflect.Uint:
		return types.Uint
	case reflect.Uint8:
		return types.Uint8
	case reflect.Uint16:
		return types.Uint16
	case reflect.Uint32:
		return types.Uint32
	case reflect.Uint64:
		return types.Uint64
	case reflect.Uintptr:
		return types.Uintptr
	}
	panic("hostIntKind")
}

func (i *Interp) ifaceFromHost(x reflect.Value) value {
	if !x.IsValid() {
		return iface{}
	}
	if x.Kind() == reflect.Ptr {
		if he, ok := x.Interface().(*hostErr); ok {
			return he.v
		}
		if hs, ok := x.Interface().(*hostStringer); ok {
			return hs.v
		}
	}
	t := i.typeOfHost(x.Type())
	switch x.Kind() {
	case reflect.Bool, reflect.Int, reflect.Int8, reflect.Int16, reflect.Int32, reflect.Int64,
		reflect.Uint, reflect.Uint8, reflect.Uint16, reflect.Uint32, reflect.Uint64, reflect.Uintptr,
		reflect.Float32, reflect.Float64, reflect.String:
		if _, isHost := t.(*hostType); !isHost {
			return iface{t: t, v: i.fromHost(x, t)}
		}
	case reflect.Slice:
		if _, isHost := t.(*hostType); !isHost {
			return iface{t: t, v: i.fromHost(x, t)}
		}
	}
	return iface{t: t, v: native{x.Interface()}}
}

// ---- host callables ----------------------------------------------------------

type hostMethod struct {
	recv native
	name string
	sig  *types.Signature
}

func (m *hostMethod) call(i *Interp, fr *frame, args []value) value {
	if eo, ok := m.recv.x.(engineObj); ok {
		return eo.callMethod(fr, m.name, args)
	}
	rv := reflect.ValueOf(m.recv.x)
	mv := rv.MethodByName(m.name)
	if !mv.IsValid() {
		panic(unsupported("host value %T has no method %s", m.recv.x, m.name))
	}
	r, ok := i.callHost(fr, mv, args, m.sig.Results(), fmt.Sprintf("(%T).%s", m.recv.x, m.name))
	if !ok {
		panic(unsupported("host method (%T).%s called with symbolic or unconvertible arguments at %s", m.recv.x, m.name, fr.where()))
	}
	return r
}

type hostFunc struct {
	fn reflect.Value
}

func (h *hostFunc) call(i *Interp, fr *frame, args []value) value {
	r, ok := i.callHost(fr, h.fn, args, nil, "hostfunc")
	if !ok {
		panic(unsupported("host func called with symbolic arguments"))
	}
	return r
}

// callHost calls a host function with converted arguments. ok=false means
// the arguments could not be converted (symbolic data).
func (i *Interp) callHost(fr *frame, fn reflect.Value, args []value, results *types.Tuple, name string) (res value, ok bool) {
	ft := fn.Type()
	nin := ft.NumIn()
	var in []reflect.Value
	if ft.IsVariadic() {
		if len(args) != nin {
			return nil, false
		}
		for k := 0; k < nin-1; k++ {
			v, ok := i.toHost(fr, args[k], ft.In(k))
			if !ok {
				return nil, false
			}
			in = append(in, v)
		}
		va, isSlice := args[nin-1].([]value)
		if !isSlice {
			return nil, false
		}
		for _, e := range va {
			v, ok := i.toHost(fr, e, ft.In(nin-1).Elem())
			if !ok {
				return nil, false
			}
			in = append(in, v)
		}
	} else {
		if len(args) != nin {
			return nil, false
		}
		for k := 0; k < nin; k++ {
			v, ok := i.toHost(fr, args[k], ft.In(k))
			if !ok {
				return nil, false
			}
			in = append(in, v)
		}
	}
	if i.w != nil {
		i.w.nativesUsed[name] = true
	}
	out := i.protectedCall(fr, fn, in, name)
	switch len(out) {
	case 0:
		return nil, true
	case 1:
		var t types.Type
		if results != nil && results.Len() == 1 {
			t = results.At(0).Type()
		}
		return i.fromHost(out[0], t), true
	}
	tup := make(tuple, len(out))
	for k := range out {
		var t types.Type
		if results != nil && results.Len() == len(out) {
			t = results.At(k).Type()
		}
		tup[k] = i.fromHost(out[k], t)
	}
	return tup, true
}

// protectedCall turns a host panic (e.g. regexp.MustCompile on a bad
// pattern, strings.Repeat negative count) into a target panic.
func (i *Interp) protectedCall(fr *frame, fn reflect.Value, in []reflect.Value, name string) (out []reflect.Value) {
	defer func() {
		if r := recover(); r != nil {
			switch r := r.(type) {
			case abortPath:
				panic(r)
			case targetPanic:
				panic(r)
			case internalError:
				panic(r)
			}
			panic(targetPanic{iface{t: i.errType, v: fmt.Sprintf("%s: %v", name, r)}, fr.stack()})
		}
	}()
	return fn.Call(in)
}

func hostDeref(n native) value {
	rv := reflect.ValueOf(n.x)
	if rv.Kind() == reflect.Ptr && !rv.IsNil() {
		return native{rv.Elem().Interface()}
	}
	panic(unsupported("dereference of host value %T", n.x))
}

func hostMapLookup(fr *frame, instr *ssa.Lookup, m native, idx value) value {
	rv := reflect.ValueOf(m.x)
	if rv.Kind() != reflect.Map {
		panic(unsupported("lookup in host value %T", m.x))
	}
	kv, ok := fr.i.toHost(fr, idx, rv.Type().Key())
	if !ok {
		panic(unsupported("symbolic key for host map %T", m.x))
	}
	mt := instr.X.Type().Underlying().(*types.Map)
	ev := rv.MapIndex(kv)
	var v value
	if ev.IsValid() {
		v = fr.i.fromHost(ev, mt.Elem())
	} else {
		v = zero(mt.Elem())
	}
	if instr.CommaOk {
		return tuple{v, ev.IsValid()}
	}
	return v
}

func hostRange(fr *frame, x native, t types.Type) iter {
	panic(unsupported("range over host value %T", x.x))
}

// hostGlobal provides values for a few globals of packages that are not
// initialised by the interpreter.
func hostGlobal(i *Interp, g *ssa.Global) bool {
	key := g.Pkg.Pkg.Path() + "." + g.Name()
	hv, ok := hostGlobals[key]
	if !ok {
		return false
	}
	*i.globals[g] = i.fromHost(reflect.ValueOf(hv).Elem(), deref(g.Type()))
	return true
}

func isAtlasFn(fn *ssa.Function) bool {
	return strings.HasPrefix(fnPkgPath(fn), "ariga.io/atlas")
}
