package main

// Terms: hash-consed bit-vector / boolean expression DAG, concrete evaluator,
// SMT-LIB2 printer. One TermFactory per worker (no locking).

import (
	"crypto/sha256"
	"encoding/base64"
	"encoding/hex"
	"fmt"
	"sort"
	"strings"
)

type Op uint8

const (
	OpConst Op = iota
	OpVar
	OpNot
	OpAnd
	OpOr
	OpEq
	OpIte
	OpAdd
	OpSub
	OpMul
	OpUDiv
	OpURem
	OpSDiv
	OpSRem
	OpBAnd
	OpBOr
	OpBXor
	OpBNot
	OpNeg
	OpShl
	OpLshr
	OpAshr
	OpUlt
	OpUle
	OpSlt
	OpSle
	OpZext  // to width w
	OpSext  // to width w
	OpTrunc // low w bits
	OpTokEq // token equality atom: val = pair id; args hold the defining formula
)

var opNames = map[Op]string{
	OpNot: "not", OpAnd: "and", OpOr: "or", OpEq: "=", OpIte: "ite",
	OpAdd: "bvadd", OpSub: "bvsub", OpMul: "bvmul", OpUDiv: "bvudiv", OpURem: "bvurem",
	OpSDiv: "bvsdiv", OpSRem: "bvsrem", OpBAnd: "bvand", OpBOr: "bvor", OpBXor: "bvxor",
	OpBNot: "bvnot", OpNeg: "bvneg", OpShl: "bvshl", OpLshr: "bvlshr", OpAshr: "bvashr",
	OpUlt: "bvult", OpUle: "bvule", OpSlt: "bvslt", OpSle: "bvsle",
}

// Term is an immutable node. w==0 means Bool, otherwise a bit-vector of w bits.
type Term struct {
	op   Op
	w    uint8
	val  uint64
	name string
	a    [3]*Term
	n    uint8
	id   uint32
	size uint32  // saturating tree size
	vars []*Term // sorted by id, deduped; nil for constants
	// variable attributes
	tok    *Token // for token byte variables
	tokIdx int
	opaque bool
}

type termKey struct {
	op         Op
	w          uint8
	val        uint64
	name       string
	a0, a1, a2 uint32
}

type TermFactory struct {
	tab    map[termKey]*Term
	nextID uint32
	True   *Term
	False  *Term
}

func NewTermFactory() *TermFactory {
	f := &TermFactory{tab: make(map[termKey]*Term, 1024)}
	f.True = f.mk(OpConst, 0, 1, "")
	f.False = f.mk(OpConst, 0, 0, "")
	return f
}

// Recycle empties the factory for the next path (keeps the table's buckets).
func (f *TermFactory) Recycle() {
	clear(f.tab)
	f.True = f.mk(OpConst, 0, 1, "")
	f.False = f.mk(OpConst, 0, 0, "")
}

func mask(w uint8) uint64 {
	if w >= 64 {
		return ^uint64(0)
	}
	if w == 0 {
		return 1
	}
	return (uint64(1) << w) - 1
}

func (f *TermFactory) mk(op Op, w uint8, val uint64, name string, args ...*Term) *Term {
	k := termKey{op: op, w: w, val: val, name: name}
	switch len(args) {
	case 3:
		k.a2 = args[2].id
		fallthrough
	case 2:
		k.a1 = args[1].id
		fallthrough
	case 1:
		k.a0 = args[0].id
	}
	if t, ok := f.tab[k]; ok {
		return t
	}
	f.nextID++
	t := &Term{op: op, w: w, val: val, name: name, n: uint8(len(args)), id: f.nextID, size: 1}
	for i, a := range args {
		t.a[i] = a
		s := uint64(t.size) + uint64(a.size)
		if s > 1<<30 {
			s = 1 << 30
		}
		t.size = uint32(s)
	}
	switch {
	case op == OpVar:
		t.vars = []*Term{t}
	case len(args) == 1:
		t.vars = args[0].vars
	case len(args) > 1:
		t.vars = mergeVars(args)
	}
	f.tab[k] = t
	return t
}

func mergeVars(args []*Term) []*Term {
	var base []*Term
	needMerge := false
	for _, a := range args {
		if len(a.vars) == 0 {
			continue
		}
		if base == nil {
			base = a.vars
			continue
		}
		if len(a.vars) == len(base) && &a.vars[0] == &base[0] {
			continue
		}
		needMerge = true
	}
	if !needMerge {
		return base
	}
	m := map[uint32]*Term{}
	for _, a := range args {
		for _, v := range a.vars {
			m[v.id] = v
		}
	}
	out := make([]*Term, 0, len(m))
	for _, v := range m {
		out = append(out, v)
	}
	sort.Slice(out, func(i, j int) bool { return out[i].id < out[j].id })
	return out
}

func (t *Term) IsConst() bool { return t.op == OpConst }
func (t *Term) IsBool() bool  { return t.w == 0 }

func (f *TermFactory) Const(w uint8, v uint64) *Term {
	return f.mk(OpConst, w, v&mask(w), "")
}
func (f *TermFactory) Bool(b bool) *Term {
	if b {
		return f.True
	}
	return f.False
}
func (f *TermFactory) Var(name string, w uint8) *Term {
	return f.mk(OpVar, w, 0, name)
}

func sext64(v uint64, w uint8) int64 {
	if w >= 64 {
		return int64(v)
	}
	sh := 64 - w
	return int64(v<<sh) >> sh
}

// evalOp computes the concrete result of op on concrete argument values.
func evalOp(op Op, w uint8, aw uint8, x, y, z uint64) uint64 {
	m := mask(w)
	switch op {
	case OpNot:
		return x ^ 1
	case OpAnd:
		return x & y
	case OpOr:
		return x | y
	case OpEq:
		if x == y {
			return 1
		}
		return 0
	case OpIte:
		if x != 0 {
			return y
		}
		return z
	case OpAdd:
		return (x + y) & m
	case OpSub:
		return (x - y) & m
	case OpMul:
		return (x * y) & m
	case OpUDiv:
		if y == 0 {
			return m
		}
		return (x / y) & m
	case OpURem:
		if y == 0 {
			return x
		}
		return (x % y) & m
	case OpSDiv:
		sx, sy := sext64(x, w), sext64(y, w)
		if sy == 0 {
			if sx < 0 {
				return 1
			}
			return m
		}
		if sy == -1 {
			return uint64(-sx) & m
		}
		return uint64(sx/sy) & m
	case OpSRem:
		sx, sy := sext64(x, w), sext64(y, w)
		if sy == 0 {
			return x
		}
		if sy == -1 {
			return 0
		}
		return uint64(sx%sy) & m
	case OpBAnd:
		return x & y
	case OpBOr:
		return x | y
	case OpBXor:
		return (x ^ y) & m
	case OpBNot:
		return (^x) & m
	case OpNeg:
		return (-x) & m
	case OpShl:
		if y >= uint64(w) {
			return 0
		}
		return (x << y) & m
	case OpLshr:
		if y >= uint64(w) {
			return 0
		}
		return (x >> y) & m
	case OpAshr:
		sx := sext64(x, w)
		if y >= uint64(w) {
			y = uint64(w) - 1
		}
		return uint64(sx>>y) & m
	case OpUlt:
		if x < y {
			return 1
		}
		return 0
	case OpUle:
		if x <= y {
			return 1
		}
		return 0
	case OpSlt:
		if sext64(x, aw) < sext64(y, aw) {
			return 1
		}
		return 0
	case OpSle:
		if sext64(x, aw) <= sext64(y, aw) {
			return 1
		}
		return 0
	case OpZext:
		return x
	case OpSext:
		return uint64(sext64(x, aw)) & m
	case OpTrunc:
		return x & m
	}
	panic(fmt.Sprintf("evalOp: bad op %d", op))
}

func (f *TermFactory) Not(x *Term) *Term {
	if x.IsConst() {
		return f.Bool(x.val == 0)
	}
	if x.op == OpNot {
		return x.a[0]
	}
	return f.mk(OpNot, 0, 0, "", x)
}

func (f *TermFactory) And(x, y *Term) *Term {
	if x.IsConst() {
		if x.val == 0 {
			return f.False
		}
		return y
	}
	if y.IsConst() {
		if y.val == 0 {
			return f.False
		}
		return x
	}
	if x == y {
		return x
	}
	if x.id > y.id {
		x, y = y, x
	}
	return f.mk(OpAnd, 0, 0, "", x, y)
}

func (f *TermFactory) Or(x, y *Term) *Term {
	if x.IsConst() {
		if x.val != 0 {
			return f.True
		}
		return y
	}
	if y.IsConst() {
		if y.val != 0 {
			return f.True
		}
		return x
	}
	if x == y {
		return x
	}
	if x.id > y.id {
		x, y = y, x
	}
	return f.mk(OpOr, 0, 0, "", x, y)
}

func (f *TermFactory) Implies(x, y *Term) *Term { return f.Or(f.Not(x), y) }
func (f *TermFactory) Iff(x, y *Term) *Term     { return f.Eq(x, y) }

func (f *TermFactory) Eq(x, y *Term) *Term {
	if x.w != y.w {
		panic(fmt.Sprintf("Eq: width mismatch %d vs %d (%s, %s)", x.w, y.w, x, y))
	}
	if x == y {
		return f.True
	}
	if x.IsConst() && y.IsConst() {
		return f.Bool(x.val == y.val)
	}
	// Dolev-Yao treatment of hash tokens: a token byte equals only the
	// same-index byte of a token with an equal pre-image.
	if x.op == OpVar && x.tok != nil || y.op == OpVar && y.tok != nil {
		if x.op == OpVar && y.op == OpVar && x.tok != nil && y.tok != nil {
			if x.tokIdx != y.tokIdx || x.tok.layer != y.tok.layer {
				return f.False
			}
			return x.tok.eqTerm(f, y.tok)
		}
		// a token whose pre-image is fully concrete has a known digest: compare the real byte
		if cx, ok := f.tokConcrete(x); ok {
			return f.Eq(cx, y)
		}
		if cy, ok := f.tokConcrete(y); ok {
			return f.Eq(x, cy)
		}
		return f.False
	}
	if x.w == 0 {
		if x.IsConst() {
			if x.val != 0 {
				return y
			}
			return f.Not(y)
		}
		if y.IsConst() {
			if y.val != 0 {
				return x
			}
			return f.Not(x)
		}
	}
	// eq(zext(a), const) -> eq(a, const') or false
	if y.IsConst() && x.op == OpZext {
		aw := x.a[0].w
		if y.val&^mask(aw) != 0 {
			return f.False
		}
		return f.Eq(x.a[0], f.Const(aw, y.val))
	}
	if x.IsConst() && y.op == OpZext {
		return f.Eq(y, x)
	}
	if x.id > y.id {
		x, y = y, x
	}
	return f.mk(OpEq, 0, 0, "", x, y)
}

func (f *TermFactory) Ite(c, x, y *Term) *Term {
	if c.IsConst() {
		if c.val != 0 {
			return x
		}
		return y
	}
	if x == y {
		return x
	}
	if x.w == 0 && x.IsConst() && y.IsConst() {
		if x.val != 0 {
			return c
		}
		return f.Not(c)
	}
	return f.mk(OpIte, x.w, 0, "", c, x, y)
}

// Bin builds a binary bit-vector operation (arithmetic or comparison).
func (f *TermFactory) Bin(op Op, x, y *Term) *Term {
	if x.w != y.w {
		panic(fmt.Sprintf("Bin %s: width mismatch %d vs %d", opNames[op], x.w, y.w))
	}
	w := x.w
	isCmp := op == OpUlt || op == OpUle || op == OpSlt || op == OpSle
	if isCmp {
		w = 0
	}
	if x.IsConst() && y.IsConst() {
		return f.Const(w, evalOp(op, w, x.w, x.val, y.val, 0))
	}
	if x.tok != nil || y.tok != nil {
		cx, okx := f.tokConcrete(x)
		cy, oky := f.tokConcrete(y)
		if (x.tok == nil || okx) && (y.tok == nil || oky) {
			if okx {
				x = cx
			}
			if oky {
				y = cy
			}
			return f.Bin(op, x, y)
		}
		panic(unsupported("arithmetic on hash token bytes"))
	}
	switch op {
	case OpAdd, OpBOr, OpBXor:
		if x.IsConst() && x.val == 0 {
			return y
		}
		if y.IsConst() && y.val == 0 {
			return x
		}
	case OpSub, OpShl, OpLshr, OpAshr:
		if y.IsConst() && y.val == 0 {
			return x
		}
	case OpBAnd:
		if x.IsConst() && x.val == mask(x.w) {
			return y
		}
		if y.IsConst() && y.val == mask(y.w) {
			return x
		}
		if x.IsConst() && x.val == 0 || y.IsConst() && y.val == 0 {
			return f.Const(w, 0)
		}
	case OpMul:
		if x.IsConst() && x.val == 1 {
			return y
		}
		if y.IsConst() && y.val == 1 {
			return x
		}
	case OpUlt:
		if x == y {
			return f.False
		}
		// zext(a) < const
		if y.IsConst() && x.op == OpZext && y.val > mask(x.a[0].w) {
			return f.True
		}
	case OpUle:
		if x == y {
			return f.True
		}
	case OpSlt:
		if x == y {
			return f.False
		}
	case OpSle:
		if x == y {
			return f.True
		}
	}
	return f.mk(op, w, 0, "", x, y)
}

func (f *TermFactory) Un(op Op, x *Term) *Term {
	if x.IsConst() {
		return f.Const(x.w, evalOp(op, x.w, x.w, x.val, 0, 0))
	}
	if x.tok != nil {
		if cx, ok := f.tokConcrete(x); ok {
			return f.Un(op, cx)
		}
		panic(unsupported("arithmetic on hash token bytes"))
	}
	return f.mk(op, x.w, 0, "", x)
}

// Resize converts x to width w (zero/sign extension or truncation).
func (f *TermFactory) Resize(x *Term, w uint8, signed bool) *Term {
	if x.w == w {
		return x
	}
	if x.tok != nil {
		if cx, ok := f.tokConcrete(x); ok {
			return f.Resize(cx, w, signed)
		}
		panic(unsupported("conversion of hash token bytes"))
	}
	if w < x.w {
		if x.IsConst() {
			return f.Const(w, x.val)
		}
		if (x.op == OpZext || x.op == OpSext) && x.a[0].w == w {
			return x.a[0]
		}
		if (x.op == OpZext || x.op == OpSext) && x.a[0].w < w {
			return f.Resize(x.a[0], w, x.op == OpSext)
		}
		return f.mk(OpTrunc, w, 0, "", x)
	}
	if x.IsConst() {
		if signed {
			return f.Const(w, uint64(sext64(x.val, x.w)))
		}
		return f.Const(w, x.val)
	}
	if signed {
		return f.mk(OpSext, w, 0, "", x)
	}
	if x.op == OpZext {
		return f.mk(OpZext, w, 0, "", x.a[0])
	}
	return f.mk(OpZext, w, 0, "", x)
}

// Eval evaluates t under env (variable name -> value). Missing variables are 0.
func (t *Term) Eval(env map[string]uint64) uint64 {
	if t.size < 64 {
		return t.evalRec(env, nil)
	}
	return t.evalRec(env, map[uint32]uint64{})
}

func (t *Term) evalRec(env map[string]uint64, memo map[uint32]uint64) uint64 {
	switch t.op {
	case OpConst:
		return t.val
	case OpVar:
		return env[t.name] & mask(t.w)
	case OpTokEq:
		return t.a[0].evalRec(env, memo)
	}
	if memo != nil {
		if v, ok := memo[t.id]; ok {
			return v
		}
	}
	var x, y, z uint64
	x = t.a[0].evalRec(env, memo)
	if t.n > 1 {
		// short-circuit to keep things cheap
		if t.op == OpAnd && x == 0 {
			return 0
		}
		if t.op == OpOr && x != 0 {
			return 1
		}
		if t.op == OpIte {
			if x != 0 {
				return t.a[1].evalRec(env, memo)
			}
			return t.a[2].evalRec(env, memo)
		}
		y = t.a[1].evalRec(env, memo)
	}
	if t.n > 2 {
		z = t.a[2].evalRec(env, memo)
	}
	r := evalOp(t.op, t.w, t.a[0].w, x, y, z)
	if memo != nil {
		memo[t.id] = r
	}
	return r
}

// evalSingle evaluates a term whose only variable is v, bound to val.
func (t *Term) evalSingle(val uint64) uint64 {
	switch t.op {
	case OpConst:
		return t.val
	case OpVar:
		return val
	case OpTokEq:
		return t.a[0].evalSingle(val)
	}
	x := t.a[0].evalSingle(val)
	var y, z uint64
	if t.n > 1 {
		if t.op == OpIte {
			if x != 0 {
				return t.a[1].evalSingle(val)
			}
			return t.a[2].evalSingle(val)
		}
		y = t.a[1].evalSingle(val)
	}
	if t.n > 2 {
		z = t.a[2].evalSingle(val)
	}
	return evalOp(t.op, t.w, t.a[0].w, x, y, z)
}

func sortName(w uint8) string {
	if w == 0 {
		return "Bool"
	}
	return fmt.Sprintf("(_ BitVec %d)", w)
}

func constSMT(w uint8, v uint64) string {
	if w == 0 {
		if v != 0 {
			return "true"
		}
		return "false"
	}
	if w%4 == 0 {
		return fmt.Sprintf("#x%0*x", int(w/4), v)
	}
	return fmt.Sprintf("#b%0*b", int(w), v)
}

// smtPrinter prints terms, emitting define-fun for big shared nodes.
type smtPrinter struct {
	defined map[uint32]bool // nodes with a define-fun in the current solver scope
	decls   map[string]bool
	out     *strings.Builder
}

func (p *smtPrinter) declare(t *Term) {
	for _, v := range t.vars {
		if !p.decls[v.name] {
			p.decls[v.name] = true
			fmt.Fprintf(p.out, "(declare-const %s %s)\n", smtSym(v.name), sortName(v.w))
		}
	}
}

func smtSym(name string) string { return "|" + name + "|" }

// expr returns the SMT text for t, possibly emitting definitions first.
func (p *smtPrinter) expr(t *Term) string {
	switch t.op {
	case OpConst:
		return constSMT(t.w, t.val)
	case OpVar:
		return smtSym(t.name)
	case OpTokEq:
		return p.expr(t.a[0])
	}
	if p.defined[t.id] {
		return fmt.Sprintf("t%d", t.id)
	}
	var s string
	switch t.op {
	case OpZext:
		s = fmt.Sprintf("((_ zero_extend %d) %s)", t.w-t.a[0].w, p.expr(t.a[0]))
	case OpSext:
		s = fmt.Sprintf("((_ sign_extend %d) %s)", t.w-t.a[0].w, p.expr(t.a[0]))
	case OpTrunc:
		s = fmt.Sprintf("((_ extract %d 0) %s)", t.w-1, p.expr(t.a[0]))
	default:
		var sb strings.Builder
		sb.WriteByte('(')
		sb.WriteString(opNames[t.op])
		for i := 0; i < int(t.n); i++ {
			sb.WriteByte(' ')
			sb.WriteString(p.expr(t.a[i]))
		}
		sb.WriteByte(')')
		s = sb.String()
	}
	if t.size > 24 {
		fmt.Fprintf(p.out, "(define-fun t%d () %s %s)\n", t.id, sortName(t.w), s)
		p.defined[t.id] = true
		return fmt.Sprintf("t%d", t.id)
	}
	return s
}

func (t *Term) String() string {
	var sb strings.Builder
	p := &smtPrinter{defined: map[uint32]bool{}, decls: map[string]bool{}, out: &strings.Builder{}}
	// inline everything for debugging (bounded)
	if t.size > 400 {
		return fmt.Sprintf("<term#%d size=%d>", t.id, t.size)
	}
	old := t.size
	_ = old
	sb.WriteString(p.inline(t))
	return sb.String()
}

func (p *smtPrinter) inline(t *Term) string {
	switch t.op {
	case OpConst:
		return constSMT(t.w, t.val)
	case OpVar:
		return t.name
	case OpTokEq:
		return fmt.Sprintf("tokeq#%d", t.val)
	case OpZext:
		return fmt.Sprintf("(zext%d %s)", t.w, p.inline(t.a[0]))
	case OpSext:
		return fmt.Sprintf("(sext%d %s)", t.w, p.inline(t.a[0]))
	case OpTrunc:
		return fmt.Sprintf("(trunc%d %s)", t.w, p.inline(t.a[0]))
	}
	var sb strings.Builder
	sb.WriteByte('(')
	sb.WriteString(opNames[t.op])
	for i := 0; i < int(t.n); i++ {
		sb.WriteByte(' ')
		sb.WriteString(p.inline(t.a[i]))
	}
	sb.WriteByte(')')
	return sb.String()
}

// Token is the Dolev-Yao abstraction of a hash digest: identified by the
// byte sequence written to the hash. layer distinguishes raw digest bytes
// from their base64 / hex renderings.
type Token struct {
	id    int
	layer string
	pre   []*Term // pre-image bytes (BV8 terms)
	eqs   map[int]*Term
	conc  []byte // real rendering when the pre-image is fully concrete (lazily computed)
	concN bool   // conc was attempted
}

// tokConcrete: the byte of a hash token whose pre-image holds no symbolic byte is the byte of
// the real SHA-256 digest (in the token's rendering): arithmetic and comparisons with ordinary
// bytes are then exact instead of unsupported.
func (f *TermFactory) tokConcrete(x *Term) (*Term, bool) {
	if x == nil || x.op != OpVar || x.tok == nil {
		return nil, false
	}
	t := x.tok
	if !t.concN {
		t.concN = true
		pre := make([]byte, len(t.pre))
		ok := true
		for i, p := range t.pre {
			if !p.IsConst() {
				ok = false
				break
			}
			pre[i] = byte(p.val)
		}
		if ok {
			d := sha256.Sum256(pre)
			switch t.layer {
			case "raw":
				t.conc = d[:]
			case "b64":
				t.conc = []byte(base64.StdEncoding.EncodeToString(d[:]))
			case "hex":
				t.conc = []byte(hex.EncodeToString(d[:]))
			}
		}
	}
	if t.conc == nil || x.tokIdx >= len(t.conc) {
		return nil, false
	}
	return f.Const(8, uint64(t.conc[x.tokIdx])), true
}

func (a *Token) eqTerm(f *TermFactory, b *Token) *Term {
	if a == b || a.id == b.id {
		return f.True
	}
	if t, ok := a.eqs[b.id]; ok {
		return t
	}
	var r *Term
	if len(a.pre) != len(b.pre) {
		r = f.False
	} else {
		r = f.True
		for i := range a.pre {
			r = f.And(r, f.Eq(a.pre[i], b.pre[i]))
		}
	}
	if !r.IsConst() {
		lo, hi := a.id, b.id
		if lo > hi {
			lo, hi = hi, lo
		}
		r = f.mk(OpTokEq, 0, uint64(lo)<<32|uint64(hi), "", r)
	}
	if a.eqs == nil {
		a.eqs = map[int]*Term{}
	}
	if b.eqs == nil {
		b.eqs = map[int]*Term{}
	}
	a.eqs[b.id] = r
	b.eqs[a.id] = r
	return r
}
