package main

// Regular expressions over strings with symbolic bytes. The pattern is always
// concrete: it is compiled by regexp/syntax to the same Prog the real regexp
// package runs, and a backtracking matcher with leftmost-first priority
// (Perl semantics, as Go's non-POSIX regexps) walks it; every rune-class test
// on a symbolic rune is a solver-decided fork of the path.

import (
	"go/types"
	"regexp"
	"regexp/syntax"
	"sync"
	"unicode"
	"unicode/utf8"

	"golang.org/x/tools/go/ssa"
)

var (
	progCache   = map[string]*syntax.Prog{}
	minLenCache = map[string]int{}
	progCacheMu sync.Mutex
)

// reMinLen is a lower bound on the number of bytes any match consumes.
func reMinLen(re *syntax.Regexp) int {
	switch re.Op {
	case syntax.OpLiteral:
		n := 0
		for _, r := range re.Rune {
			if re.Flags&syntax.FoldCase != 0 {
				n++ // a folded rune may be shorter or longer in UTF-8; 1 is a safe bound
			} else {
				n += utf8.RuneLen(r)
			}
		}
		return n
	case syntax.OpCharClass, syntax.OpAnyCharNotNL, syntax.OpAnyChar:
		return 1
	case syntax.OpCapture:
		return reMinLen(re.Sub[0])
	case syntax.OpPlus:
		return reMinLen(re.Sub[0])
	case syntax.OpRepeat:
		return re.Min * reMinLen(re.Sub[0])
	case syntax.OpConcat:
		n := 0
		for _, s := range re.Sub {
			n += reMinLen(s)
		}
		return n
	case syntax.OpAlternate:
		m := -1
		for _, s := range re.Sub {
			if l := reMinLen(s); m < 0 || l < m {
				m = l
			}
		}
		if m < 0 {
			m = 0
		}
		return m
	}
	return 0
}

func regexMinLen(re *regexp.Regexp) int {
	pat := re.String()
	progCacheMu.Lock()
	defer progCacheMu.Unlock()
	if n, ok := minLenCache[pat]; ok {
		return n
	}
	rx, err := syntax.Parse(pat, syntax.Perl)
	n := 0
	if err == nil {
		n = reMinLen(rx)
	}
	minLenCache[pat] = n
	return n
}

func compileProg(re *regexp.Regexp) *syntax.Prog {
	pat := re.String()
	progCacheMu.Lock()
	defer progCacheMu.Unlock()
	if p, ok := progCache[pat]; ok {
		return p
	}
	rx, err := syntax.Parse(pat, syntax.Perl)
	if err != nil {
		panic(unsupported("regexp parse %q: %v", pat, err))
	}
	p, err := syntax.Compile(rx.Simplify())
	if err != nil {
		panic(unsupported("regexp compile %q: %v", pat, err))
	}
	progCache[pat] = p
	return p
}

type reMatcher struct {
	fr    *frame
	prog  *syntax.Prog
	bs    []value
	runes map[int]decoded
	steps int
	minLen int
}

type decoded struct {
	r value
	w int
}

func (m *reMatcher) runeAt(pos int) (value, int) {
	if pos >= len(m.bs) {
		return int32(-1), 0
	}
	if d, ok := m.runes[pos]; ok {
		return d.r, d.w
	}
	r, w := m.fr.decodeRuneBytes(m.bs[pos:])
	m.runes[pos] = decoded{r, w}
	return r, w
}

// runeBefore returns the rune ending at pos (for \b and ^ in multi-line mode).
func (m *reMatcher) runeBefore(pos int) value {
	if pos == 0 {
		return int32(-1)
	}
	r, _ := m.fr.decodeLastRune(m.bs[:pos])
	return r
}

func (m *reMatcher) matchRuneClass(inst *syntax.Inst, r value) bool {
	fr := m.fr
	if s, ok := r.(symv); ok {
		f := fr.f()
		t := f.Resize(s.t, 32, true)
		c := func(v rune) *Term { return f.Const(32, uint64(uint32(v))) }
		cond := f.False
		rs := inst.Rune
		switch inst.Op {
		case syntax.InstRune1:
			cond = f.Eq(t, c(rs[0]))
			if syntax.Flags(inst.Arg)&syntax.FoldCase != 0 {
				for r1 := unicode.SimpleFold(rs[0]); r1 != rs[0]; r1 = unicode.SimpleFold(r1) {
					cond = f.Or(cond, f.Eq(t, c(r1)))
				}
			}
		case syntax.InstRuneAny:
			cond = f.True
		case syntax.InstRuneAnyNotNL:
			cond = f.Not(f.Eq(t, c('\n')))
		case syntax.InstRune:
			if len(rs) == 1 {
				cond = f.Eq(t, c(rs[0]))
				if syntax.Flags(inst.Arg)&syntax.FoldCase != 0 {
					for r1 := unicode.SimpleFold(rs[0]); r1 != rs[0]; r1 = unicode.SimpleFold(r1) {
						cond = f.Or(cond, f.Eq(t, c(r1)))
					}
				}
			} else {
				for k := 0; k+1 < len(rs); k += 2 {
					lo, hi := rs[k], rs[k+1]
					var in *Term
					if lo == hi {
						in = f.Eq(t, c(lo))
					} else {
						in = f.And(f.Bin(OpSle, c(lo), t), f.Bin(OpSle, t, c(hi)))
					}
					cond = f.Or(cond, in)
				}
			}
		}
		return fr.i.p.Branch(cond)
	}
	rv := rune(asInt64(r))
	if rv < 0 {
		return false
	}
	return inst.MatchRune(rv)
}

func (m *reMatcher) isWordChar(r value) bool {
	if s, ok := r.(symv); ok {
		f := m.fr.f()
		t := f.Resize(s.t, 32, true)
		c := func(v rune) *Term { return f.Const(32, uint64(v)) }
		in := func(lo, hi rune) *Term { return f.And(f.Bin(OpSle, c(lo), t), f.Bin(OpSle, t, c(hi))) }
		return m.fr.i.p.Branch(f.Or(in('A', 'Z'), f.Or(in('a', 'z'), f.Or(in('0', '9'), f.Eq(t, c('_'))))))
	}
	rv := rune(asInt64(r))
	return 'A' <= rv && rv <= 'Z' || 'a' <= rv && rv <= 'z' || '0' <= rv && rv <= '9' || rv == '_'
}

func (m *reMatcher) runeIs(r value, c rune) bool {
	if s, ok := r.(symv); ok {
		f := m.fr.f()
		return m.fr.i.p.Branch(f.Eq(f.Resize(s.t, 32, true), f.Const(32, uint64(uint32(c)))))
	}
	return rune(asInt64(r)) == c
}

func (m *reMatcher) emptyOK(op syntax.EmptyOp, pos int) bool {
	if op&syntax.EmptyBeginText != 0 && pos != 0 {
		return false
	}
	if op&syntax.EmptyEndText != 0 && pos != len(m.bs) {
		return false
	}
	if op&syntax.EmptyBeginLine != 0 && pos != 0 {
		if !m.runeIs(m.runeBefore(pos), '\n') {
			return false
		}
	}
	if op&syntax.EmptyEndLine != 0 && pos != len(m.bs) {
		r, _ := m.runeAt(pos)
		if !m.runeIs(r, '\n') {
			return false
		}
	}
	if op&(syntax.EmptyWordBoundary|syntax.EmptyNoWordBoundary) != 0 {
		before := pos > 0 && m.isWordChar(m.runeBefore(pos))
		after := false
		if pos < len(m.bs) {
			r, _ := m.runeAt(pos)
			after = m.isWordChar(r)
		}
		if op&syntax.EmptyWordBoundary != 0 && before == after {
			return false
		}
		if op&syntax.EmptyNoWordBoundary != 0 && before != after {
			return false
		}
	}
	return true
}

// try runs the backtracking search from pc at pos. visited prevents
// re-exploring (pc,pos) states that already failed (as regexp's backtracker).
func (m *reMatcher) try(pc uint32, pos int, caps []int, visited map[uint64]bool) ([]int, bool) {
	for {
		m.steps++
		if m.steps > 200000 {
			panic(abortPath{kind: "budget", reason: "regexp step budget exceeded"})
		}
		key := uint64(pc)<<32 | uint64(uint32(pos))
		inst := &m.prog.Inst[pc]
		switch inst.Op {
		case syntax.InstFail:
			return nil, false
		case syntax.InstMatch:
			out := append([]int(nil), caps...)
			out[1] = pos
			return out, true
		case syntax.InstNop:
			pc = inst.Out
		case syntax.InstCapture:
			if int(inst.Arg) < len(caps) {
				nc := append([]int(nil), caps...)
				nc[inst.Arg] = pos
				caps = nc
			}
			pc = inst.Out
		case syntax.InstEmptyWidth:
			if !m.emptyOK(syntax.EmptyOp(inst.Arg), pos) {
				return nil, false
			}
			pc = inst.Out
		case syntax.InstAlt, syntax.InstAltMatch:
			if visited[key] {
				return nil, false
			}
			visited[key] = true
			if r, ok := m.try(inst.Out, pos, caps, visited); ok {
				return r, true
			}
			pc = inst.Arg
		case syntax.InstRune, syntax.InstRune1, syntax.InstRuneAny, syntax.InstRuneAnyNotNL:
			if pos >= len(m.bs) {
				return nil, false
			}
			r, w := m.runeAt(pos)
			if !m.matchRuneClass(inst, r) {
				return nil, false
			}
			pos += w
			pc = inst.Out
		default:
			panic(unsupported("regexp instruction %v", inst.Op))
		}
	}
}

// find returns the leftmost-first match (capture index pairs) or nil.
func (m *reMatcher) find(start int) []int {
	if len(m.bs)-start < m.minLen {
		return nil // no match can fit: decided without forking
	}
	ncap := m.prog.NumCap
	if ncap < 2 {
		ncap = 2
	}
	anchored := m.prog.StartCond()&syntax.EmptyBeginText != 0
	for pos := start; pos <= len(m.bs); {
		caps := make([]int, ncap)
		for k := range caps {
			caps[k] = -1
		}
		caps[0] = pos
		if r, ok := m.try(uint32(m.prog.Start), pos, caps, map[uint64]bool{}); ok {
			return r
		}
		if anchored {
			return nil
		}
		if pos >= len(m.bs) {
			break
		}
		_, w := m.runeAt(pos)
		if w == 0 {
			w = 1
		}
		pos += w
	}
	return nil
}

func newMatcher(fr *frame, re *regexp.Regexp, s value) *reMatcher {
	return &reMatcher{fr: fr, prog: compileProg(re), bs: strBytes(s), runes: map[int]decoded{}, minLen: regexMinLen(re)}
}

func init() {
	reArg := func(a value) *regexp.Regexp {
		n, ok := a.(native)
		if !ok {
			panic(declined{})
		}
		re, ok := n.x.(*regexp.Regexp)
		if !ok {
			panic(declined{})
		}
		return re
	}
	symStr := func(a value) value {
		if _, ok := a.(*sstr); !ok {
			panic(declined{})
		}
		return a
	}
	intrinsics["(*regexp.Regexp).MatchString"] = func(fr *frame, fn *ssa.Function, a []value) value {
		m := newMatcher(fr, reArg(a[0]), symStr(a[1]))
		return m.find(0) != nil
	}
	intrinsics["(*regexp.Regexp).FindString"] = func(fr *frame, fn *ssa.Function, a []value) value {
		s := symStr(a[1])
		m := newMatcher(fr, reArg(a[0]), s)
		loc := m.find(0)
		if loc == nil {
			return ""
		}
		return strSlice(s, loc[0], loc[1])
	}
	intrinsics["(*regexp.Regexp).FindStringIndex"] = func(fr *frame, fn *ssa.Function, a []value) value {
		s := symStr(a[1])
		m := newMatcher(fr, reArg(a[0]), s)
		loc := m.find(0)
		if loc == nil {
			return []value(nil)
		}
		return []value{loc[0], loc[1]}
	}
	intrinsics["(*regexp.Regexp).FindStringSubmatch"] = func(fr *frame, fn *ssa.Function, a []value) value {
		s := symStr(a[1])
		m := newMatcher(fr, reArg(a[0]), s)
		loc := m.find(0)
		if loc == nil {
			return []value(nil)
		}
		out := make([]value, len(loc)/2)
		for k := range out {
			if loc[2*k] >= 0 && loc[2*k+1] >= 0 {
				out[k] = strSlice(s, loc[2*k], loc[2*k+1])
			} else {
				out[k] = ""
			}
		}
		return out
	}
	intrinsics["(*regexp.Regexp).FindStringSubmatchIndex"] = func(fr *frame, fn *ssa.Function, a []value) value {
		s := symStr(a[1])
		m := newMatcher(fr, reArg(a[0]), s)
		loc := m.find(0)
		if loc == nil {
			return []value(nil)
		}
		out := make([]value, len(loc))
		for k := range out {
			out[k] = loc[k]
		}
		return out
	}
	findAll := func(fr *frame, re *regexp.Regexp, s value, n int) [][]int {
		m := newMatcher(fr, re, s)
		var res [][]int
		pos, prevEnd := 0, -1
		for pos <= strLen(s) && (n < 0 || len(res) < n) {
			loc := m.find(pos)
			if loc == nil {
				break
			}
			accept := true
			if loc[1] == loc[0] {
				if loc[0] == prevEnd {
					accept = false
				}
				if loc[1] < strLen(s) {
					_, w := m.runeAt(loc[1])
					pos = loc[1] + w
				} else {
					pos = strLen(s) + 1
				}
			} else {
				pos = loc[1]
			}
			prevEnd = loc[1]
			if accept {
				res = append(res, loc)
			}
		}
		return res
	}
	intrinsics["(*regexp.Regexp).FindAllString"] = func(fr *frame, fn *ssa.Function, a []value) value {
		s := symStr(a[1])
		locs := findAll(fr, reArg(a[0]), s, int(asInt64(a[2])))
		if locs == nil {
			return []value(nil)
		}
		out := make([]value, len(locs))
		for k, l := range locs {
			out[k] = strSlice(s, l[0], l[1])
		}
		return out
	}
	intrinsics["(*regexp.Regexp).FindAllStringIndex"] = func(fr *frame, fn *ssa.Function, a []value) value {
		s := symStr(a[1])
		locs := findAll(fr, reArg(a[0]), s, int(asInt64(a[2])))
		if locs == nil {
			return []value(nil)
		}
		out := make([]value, len(locs))
		for k, l := range locs {
			out[k] = []value{l[0], l[1]}
		}
		return out
	}
	intrinsics["(*regexp.Regexp).FindAllStringSubmatch"] = func(fr *frame, fn *ssa.Function, a []value) value {
		s := symStr(a[1])
		locs := findAll(fr, reArg(a[0]), s, int(asInt64(a[2])))
		if locs == nil {
			return []value(nil)
		}
		out := make([]value, len(locs))
		for k, l := range locs {
			sub := make([]value, len(l)/2)
			for j := range sub {
				if l[2*j] >= 0 && l[2*j+1] >= 0 {
					sub[j] = strSlice(s, l[2*j], l[2*j+1])
				} else {
					sub[j] = ""
				}
			}
			out[k] = sub
		}
		return out
	}
	intrinsics["(*regexp.Regexp).ReplaceAllString"] = func(fr *frame, fn *ssa.Function, a []value) value {
		s := symStr(a[1])
		repl, ok := a[2].(string)
		if !ok {
			panic(unsupported("regexp.ReplaceAllString with symbolic replacement"))
		}
		re := reArg(a[0])
		locs := findAll(fr, re, s, -1)
		var out []value
		last := 0
		bs := strBytes(s)
		for _, l := range locs {
			out = append(out, bs[last:l[0]]...)
			// expand template
			for k := 0; k < len(repl); k++ {
				if repl[k] == '$' && k+1 < len(repl) {
					if repl[k+1] >= '0' && repl[k+1] <= '9' {
						g := int(repl[k+1] - '0')
						if 2*g+1 < len(l) && l[2*g] >= 0 {
							out = append(out, bs[l[2*g]:l[2*g+1]]...)
						}
						k++
						continue
					}
					panic(unsupported("regexp replacement template %q", repl))
				}
				out = append(out, repl[k])
			}
			last = l[1]
		}
		out = append(out, bs[last:]...)
		return mkStr(out)
	}
}

var _ = utf8.RuneError
var _ = types.Bool
