package main

// symgo: bounded symbolic execution of Go functions from go/ssa with an SMT
// solver deciding every branch and assertion. See /verif/DESIGN.md.

import (
	"encoding/json"
	"flag"
	"fmt"
	"os"
	"runtime/debug"
	"runtime/pprof"
	"sort"
	"strings"
	"sync"
	"time"
)

type Result struct {
	Harness        string         `json:"harness"`
	Pkg            string         `json:"pkg"`
	Status         string         `json:"status"` // ok | violation | inconclusive
	StopReason     string         `json:"stop_reason,omitempty"`
	Paths          int            `json:"paths"`
	Pruned         int            `json:"pruned"`
	Aborted        int            `json:"aborted"`
	AbortReasons   map[string]int `json:"abort_reasons,omitempty"`
	Forks          int64          `json:"forks"`
	Steps          int64          `json:"steps"`
	MaxDepth       int            `json:"max_depth"`
	Queries        int            `json:"queries"`
	QSat           int            `json:"queries_sat"`
	QUnsat         int            `json:"queries_unsat"`
	QUnknown       int            `json:"queries_unknown"`
	AssertQueries  int            `json:"assert_queries"`
	AssertsChecked int64          `json:"asserts_checked"`
	DomainDecided  int64          `json:"domain_decided"`
	ModelDecided   int64          `json:"model_decided"`
	SolverTimeS    float64        `json:"solver_time_s"`
	WallS          float64        `json:"wall_s"`
	LoadS          float64        `json:"load_s"`
	Reached        map[string]int `json:"reached,omitempty"`
	Functions      []string       `json:"functions_encoded"`
	Intrinsics     []string       `json:"intrinsics"`
	Natives        []string       `json:"natives"`
	Stubs          []string       `json:"stubs"`
	Violations     []*Violation   `json:"violations,omitempty"`
	Samples        []PathSample   `json:"samples,omitempty"`
	CrossChecked   int            `json:"cross_checked"`
	CrossDisagree  int            `json:"cross_disagree"`
	Solver         string         `json:"solver"`
	Workers        int            `json:"workers"`
	InitSkipped    []string       `json:"init_skipped,omitempty"`
}

var smtLogPath string

type stringList []string

func (s *stringList) String() string     { return strings.Join(*s, ",") }
func (s *stringList) Set(v string) error { *s = append(*s, v); return nil }

func main() {
	debug.SetGCPercent(400)
	debug.SetMemoryLimit(12 << 30) // soft limit: the collector works harder instead of letting the heap grow fivefold
	cfg := &Config{}
	var files, stubs, xfiles stringList
	var out string
	var timeLimit string
	flag.StringVar(&cfg.Dir, "dir", "/repo", "module directory")
	flag.StringVar(&cfg.Pkg, "pkg", "", "package under test")
	flag.StringVar(&cfg.Harness, "harness", "", "harness function name")
	flag.Var(&files, "file", "harness source file (repeatable)")
	flag.Var(&xfiles, "xfile", "importpath=file: overlay a file into another package (export shims; repeatable)")
	flag.Var(&stubs, "stub", "function substitution real=harnessFunc (repeatable)")
	flag.IntVar(&cfg.Workers, "workers", 16, "parallel workers")
	flag.Int64Var(&cfg.MaxSteps, "maxsteps", 20000000, "instruction budget per path")
	flag.IntVar(&cfg.MaxDecisions, "maxdecisions", 20000, "decision budget per path")
	flag.IntVar(&cfg.MaxPaths, "maxpaths", 5000000, "path budget")
	flag.BoolVar(&cfg.Cross, "cross", false, "cross-check assertion queries with z3-new and cvc5")
	flag.BoolVar(&cfg.ASCIIOnly, "ascii", false, "bound: symbolic bytes are ASCII (non-ASCII paths pruned)")
	flag.StringVar(&cfg.Solver, "solver", "z3", "main solver")
	flag.IntVar(&cfg.Samples, "samples", 2, "path samples per worker")
	flag.BoolVar(&cfg.Trace, "trace", false, "trace calls")
	flag.BoolVar(&cfg.Reinit, "reinit", false, "re-run package initialisers for every path")
	flag.BoolVar(&cfg.Domain, "domain", false, "decide single-byte-variable branches by exact domain enumeration before asking the solver")
	flag.BoolVar(&cfg.MapPerm, "mapperm", false, "explore map iteration orders")
	flag.IntVar(&cfg.MapDev, "mapdev", 0, "bound: at most this many map ranges per path iterate in a permuted order (0 = unlimited)")
	flag.StringVar(&timeLimit, "timelimit", "", "wall-clock limit (e.g. 10m)")
	flag.IntVar(&QueryTimeoutMS, "qtimeout", 120000, "per-query solver timeout in milliseconds (0 = none); an expired query is inconclusive")
	var initAllow string
	flag.StringVar(&initAllow, "initallow", "", "comma-separated package paths whose initialisers are run in addition to the built-in list")
	flag.StringVar(&out, "out", "", "result JSON path")
	var cpuprof string
	flag.StringVar(&smtLogPath, "smtlog", "", "log SMT input of worker 0 to this file")
	flag.StringVar(&cpuprof, "cpuprofile", "", "write CPU profile")
	flag.Parse()
	for _, p := range strings.Split(initAllow, ",") {
		if p = strings.TrimSpace(p); p != "" {
			initAllowExtra[p] = true
		}
	}
	if cpuprof != "" {
		pf, _ := os.Create(cpuprof)
		pprof.StartCPUProfile(pf)
		defer pprof.StopCPUProfile()
	}
	cfg.Files = files
	cfg.XFiles = map[string][]string{}
	for _, x := range xfiles {
		k, v, ok := strings.Cut(x, "=")
		if !ok {
			fmt.Fprintln(os.Stderr, "bad -xfile", x)
			os.Exit(2)
		}
		cfg.XFiles[k] = append(cfg.XFiles[k], v)
	}
	cfg.Stubs = map[string]string{}
	for _, s := range stubs {
		k, v, ok := strings.Cut(s, "=")
		if !ok {
			fmt.Fprintln(os.Stderr, "bad -stub", s)
			os.Exit(2)
		}
		cfg.Stubs[k] = v
	}
	if timeLimit != "" {
		d, err := time.ParseDuration(timeLimit)
		if err != nil {
			fmt.Fprintln(os.Stderr, err)
			os.Exit(2)
		}
		cfg.TimeLimit = d
	}
	res := runHarness(cfg)
	data, _ := json.MarshalIndent(res, "", " ")
	if out != "" {
		os.WriteFile(out, data, 0o644)
	}
	fmt.Printf("symgo %s: status=%s paths=%d pruned=%d aborted=%d queries=%d (sat %d unsat %d) assert_queries=%d domain_decided=%d violations=%d wall=%.1fs solver=%.1fs %s\n",
		res.Harness, res.Status, res.Paths, res.Pruned, res.Aborted, res.Queries, res.QSat, res.QUnsat, res.AssertQueries, res.DomainDecided, len(res.Violations), res.WallS, res.SolverTimeS, res.StopReason)
	for k, n := range res.AbortReasons {
		fmt.Printf("  aborted x%d: %s\n", n, k)
	}
	for _, v := range res.Violations {
		fmt.Printf("  violation[%s] %s model=%v choices=%v at %s\n", v.Kind, v.Msg, v.Model, v.Choices, v.Where)
	}
	pprof.StopCPUProfile()
	switch res.Status {
	case "ok":
		os.Exit(0)
	case "violation":
		os.Exit(1)
	}
	os.Exit(2)
}

func runHarness(cfg *Config) *Result {
	t0 := time.Now()
	res := &Result{Harness: cfg.Harness, Pkg: cfg.Pkg, Solver: cfg.Solver, Workers: cfg.Workers}
	P, err := LoadProgram(cfg)
	if err != nil {
		res.Status = "inconclusive"
		res.StopReason = "load: " + err.Error()
		return res
	}
	res.LoadS = time.Since(t0).Seconds()
	fn := P.pkg.Func(cfg.Harness)
	if fn == nil {
		res.Status = "inconclusive"
		res.StopReason = "harness function not found: " + cfg.Harness
		return res
	}
	ex := NewExplorer()
	ex.maxPaths = cfg.MaxPaths
	ex.started = time.Now()
	if cfg.TimeLimit > 0 {
		ex.deadline = ex.started.Add(cfg.TimeLimit)
	}
	var wg sync.WaitGroup
	var workers []*Worker
	for k := 0; k < cfg.Workers; k++ {
		s, err := NewSolver(cfg.Solver)
		if err != nil {
			res.Status = "inconclusive"
			res.StopReason = "solver: " + err.Error()
			return res
		}
		if k == 0 && smtLogPath != "" {
			lf, _ := os.Create(smtLogPath)
			s.log = lf
		}
		w := &Worker{id: k, ex: ex, cfg: cfg, P: P, solver: s, harnessPkg: P.pkg, harnessFn: fn,
			intrinsicsUsed: map[string]bool{}, nativesUsed: map[string]bool{}, stubsUsed: map[string]bool{}}
		if cfg.Cross {
			for _, kind := range []string{"z3-new", "cvc5"} {
				cs, err := NewSolver(kind)
				if err != nil {
					res.Status = "inconclusive"
					res.StopReason = "cross solver: " + err.Error()
					return res
				}
				w.cross = append(w.cross, cs)
			}
		}
		workers = append(workers, w)
	}
	for _, w := range workers {
		wg.Add(1)
		go w.run(&wg)
	}
	wg.Wait()
	funcs := map[string]bool{}
	intr := map[string]bool{}
	nat := map[string]bool{}
	stb := map[string]bool{}
	for _, w := range workers {
		res.Queries += w.solver.Queries
		res.QSat += w.solver.NSat
		res.QUnsat += w.solver.NUnsat
		res.QUnknown += w.solver.NUnk
		res.SolverTimeS += w.solver.Time.Seconds()
		res.AssertQueries += w.assertQueries
		res.AssertsChecked += w.assertsChecked
		res.DomainDecided += w.domainDecided
		res.ModelDecided += w.modelDecided
		res.CrossChecked += w.crossChecked
		res.CrossDisagree += w.crossDisagree
		res.Steps += w.steps
		res.Forks += w.forks
		if w.maxDepth > res.MaxDepth {
			res.MaxDepth = w.maxDepth
		}
		if w.interp != nil {
			if len(res.InitSkipped) == 0 {
				res.InitSkipped = w.interp.initSkipped
			}
			for f := range w.interp.funcsSeen {
				if f.Pkg != nil && strings.HasPrefix(f.Pkg.Pkg.Path(), "ariga.io/atlas") && !strings.HasPrefix(f.Name(), "verif") && !strings.HasPrefix(f.Name(), "VerifHarness") {
					pos := P.prog.Fset.Position(f.Pos())
					funcs[fmt.Sprintf("%s (%s)", f.String(), strings.TrimPrefix(pos.Filename, cfg.Dir+"/"))] = true
				}
			}
		}
		for k := range w.intrinsicsUsed {
			intr[k] = true
		}
		for k := range w.nativesUsed {
			nat[k] = true
		}
		for k := range w.stubsUsed {
			stb[k] = true
		}
		if len(res.Samples) < 24 {
			res.Samples = append(res.Samples, w.samples...)
		}
		w.solver.Close()
		for _, c := range w.cross {
			c.Close()
		}
	}
	if len(res.Samples) > 24 {
		res.Samples = res.Samples[:24]
	}
	res.Functions = sortedKeys(funcs)
	res.Intrinsics = sortedKeys(intr)
	res.Natives = sortedKeys(nat)
	res.Stubs = sortedKeys(stb)
	st := ex.stats
	res.Paths, res.Pruned, res.Aborted = st.Paths, st.Pruned, st.Aborted
	res.AbortReasons = st.AbortReasons
	res.Reached = st.Reached
	res.Violations = ex.violations
	sort.Slice(res.Violations, func(a, b int) bool { return res.Violations[a].Msg < res.Violations[b].Msg })
	res.StopReason = ex.stopReason
	res.WallS = time.Since(t0).Seconds()
	switch {
	case len(res.Violations) > 0:
		res.Status = "violation"
	case res.Aborted > 0 || res.QUnknown > 0 || res.CrossDisagree > 0 || (ex.stop && ex.stopReason != ""):
		res.Status = "inconclusive"
	case res.Paths == 0:
		res.Status = "inconclusive"
		res.StopReason = "no path completed (vacuous harness)"
	default:
		res.Status = "ok"
	}
	return res
}
