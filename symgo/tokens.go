package main

// Dolev-Yao model of SHA-256 and its base64/hex renderings (DESIGN.md 2.6).
// A digest is an opaque token identified by the byte sequence fed to the
// hash; two tokens are equal iff their pre-images are equal (collision
// freedom is an assumption of every check that uses them), and a token never
// equals bytes that are not a token.

import (
	"fmt"
	"go/types"
	"reflect"

	"golang.org/x/tools/go/ssa"
)

// engineObj is implemented by host objects whose methods are run by the engine.
type engineObj interface {
	callMethod(fr *frame, name string, args []value) value
}

type symHash struct {
	buf []value
}

func (h *symHash) callMethod(fr *frame, name string, args []value) value {
	switch name {
	case "Write":
		b := args[0].([]value)
		h.buf = append(h.buf, b...)
		return tuple{len(b), iface{}}
	case "WriteString":
		b := strBytes(args[0])
		h.buf = append(h.buf, b...)
		return tuple{len(b), iface{}}
	case "Sum":
		var prefix []value
		if args[0] != nil {
			prefix = args[0].([]value)
		}
		out := append([]value(nil), prefix...)
		return append(out, fr.newToken(h.buf, "raw", 32)...)
	case "Reset":
		h.buf = nil
		return nil
	case "Size":
		return 32
	case "BlockSize":
		return 64
	}
	panic(unsupported("hash method %s", name))
}

// newToken creates the token bytes for the pre-image buf.
func (fr *frame) newToken(buf []value, layer string, n int) []value {
	p := fr.i.p
	f := p.f
	p.tokens++
	tok := &Token{id: p.tokens, layer: layer}
	for _, b := range buf {
		tok.pre = append(tok.pre, byteTerm(f, b))
	}
	return tokenBytes(f, tok, n)
}

func tokenBytes(f *TermFactory, tok *Token, n int) []value {
	out := make([]value, n)
	for k := range out {
		v := f.Var(fmt.Sprintf("tok%d_%s_%d", tok.id, tok.layer, k), 8)
		v.tok = tok
		v.tokIdx = k
		out[k] = symv{v, types.Uint8}
	}
	return out
}

// tokenOf returns the token whose bytes (in order, complete) make up bs.
func tokenOf(bs []value, n int) *Token {
	if len(bs) != n {
		return nil
	}
	var tok *Token
	for k, b := range bs {
		s, ok := b.(symv)
		if !ok || s.t.op != OpVar || s.t.tok == nil || s.t.tokIdx != k {
			return nil
		}
		if tok == nil {
			tok = s.t.tok
		} else if tok != s.t.tok {
			return nil
		}
	}
	return tok
}

func hasTokenBytes(bs []value) bool {
	for _, b := range bs {
		if s, ok := b.(symv); ok && s.t.op == OpVar && s.t.tok != nil {
			return true
		}
	}
	return false
}

func init() {
	intrinsics["crypto/sha256.New"] = func(fr *frame, fn *ssa.Function, a []value) value {
		h := &symHash{}
		return iface{t: fr.i.typeOfHost(reflect.TypeOf(h)), v: native{h}}
	}
	intrinsics["crypto/sha256.Sum256"] = func(fr *frame, fn *ssa.Function, a []value) value {
		return array(fr.newToken(a[0].([]value), "raw", 32))
	}
	intrinsics["(*encoding/base64.Encoding).EncodeToString"] = func(fr *frame, fn *ssa.Function, a []value) value {
		src := a[1].([]value)
		if !hasTokenBytes(src) {
			if allConcrete(src) {
				panic(declined{})
			}
			panic(unsupported("base64 of symbolic non-token bytes"))
		}
		tok := tokenOf(src, 32)
		if tok == nil || tok.layer != "raw" {
			panic(unsupported("base64 of partial or mixed hash token"))
		}
		d := &Token{id: tok.id, layer: "b64", pre: tok.pre}
		return mkStr(tokenBytes(fr.f(), d, 44))
	}
	intrinsics["encoding/hex.EncodeToString"] = func(fr *frame, fn *ssa.Function, a []value) value {
		src := a[0].([]value)
		if !hasTokenBytes(src) {
			panic(declined{})
		}
		tok := tokenOf(src, 32)
		if tok == nil || tok.layer != "raw" {
			panic(unsupported("hex of partial or mixed hash token"))
		}
		d := &Token{id: tok.id, layer: "hex", pre: tok.pre}
		return mkStr(tokenBytes(fr.f(), d, 64))
	}
}
