package main

// fmt intrinsics. Concrete operands are formatted by the real fmt package;
// symbolic strings travel through it as placeholders and are spliced back.

import (
	"fmt"
	"go/types"
	"reflect"
	"strconv"
	"strings"

	"golang.org/x/tools/go/ssa"
)

type fmtVerb struct {
	verb rune
	arg  int
}

// parseFormat returns, per consumed operand, the verb applied to it.
// ok=false for formats using explicit indexes or '*' width (left to the host).
func parseFormat(format string) (verbs []fmtVerb, ok bool) {
	arg := 0
	for i := 0; i < len(format); i++ {
		if format[i] != '%' {
			continue
		}
		i++
		for i < len(format) && strings.IndexByte("+-# 0", format[i]) >= 0 {
			i++
		}
		for i < len(format) && (format[i] >= '0' && format[i] <= '9' || format[i] == '.') {
			i++
		}
		if i >= len(format) {
			break
		}
		switch format[i] {
		case '%':
			continue
		case '[', '*':
			return nil, false
		}
		verbs = append(verbs, fmtVerb{rune(format[i]), arg})
		arg++
	}
	return verbs, true
}

// phArg is a placeholder operand standing for a symbolic string.
type phArg struct{ k int }

func (p phArg) Format(f fmt.State, verb rune) {
	fmt.Fprintf(f, "\x00\x01%d;%c\x02", p.k, verb)
}

var anyRT = reflect.TypeOf((*any)(nil)).Elem()

// symSprintf formats with possibly symbolic operands. wrapIdx receives the
// indexes of %w operands.
func (fr *frame) symSprintf(format string, args []value) (value, []int) {
	i := fr.i
	verbs, ok := parseFormat(format)
	var wraps []int
	hostFormat := format
	if ok {
		for _, v := range verbs {
			if v.verb == 'w' {
				wraps = append(wraps, v.arg)
			}
		}
	}
	override := map[int]rune{}
	for _, w := range wraps {
		override[w] = 'v'
	}
	verbOf := map[int]rune{}
	for _, v := range verbs {
		verbOf[v.arg] = v.verb
	}
	hostArgs := make([]any, len(args))
	subst := map[int]value{}
	for k, a := range args {
		it, isI := a.(iface)
		if !isI {
			panic(fmt.Sprintf("Sprintf operand %T", a))
		}
		// Pre-render errors and Stringers in the interpreter.
		if it.t != nil {
			if _, isHost := it.t.(*hostType); !isHost {
				if _, isN := it.v.(native); !isN {
					vb := verbOf[k]
					if vb == 's' || vb == 'v' || vb == 'q' || vb == 'w' || !ok {
						if m := i.findMethod(it.t, "Error"); m != nil && m.Signature.Params().Len() == 0 {
							if p, isP := it.v.(*value); isP && p == nil {
								// nil pointer receiver: let the method decide
							}
							it = iface{t: types.Typ[types.String], v: call(i, fr, 0, m, []value{it.v})}
						} else if m := i.findMethod(it.t, "String"); m != nil && m.Signature.Params().Len() == 0 && m.Signature.Results().Len() == 1 {
							it = iface{t: types.Typ[types.String], v: call(i, fr, 0, m, []value{it.v})}
						}
					}
				}
			}
		}
		switch v := it.v.(type) {
		case *sstr:
			subst[k] = v
			hostArgs[k] = phArg{k}
			continue
		case symv:
			// symbolic number: case split (bounded by the harness ranges)
			c := fr.i.p.Concretize(v.t)
			if v.t.w == 0 {
				hostArgs[k] = c != 0
			} else {
				hostArgs[k] = reflect.ValueOf(mkInt(v.k, c)).Interface()
			}
			continue
		case []value:
			// slice holding symbolic strings: render as [a b c]
			if !allConcrete(v) {
				var parts []value
				parts = append(parts, uint8('['))
				for j, e := range v {
					if j > 0 {
						parts = append(parts, uint8(' '))
					}
					if !isStr(e) {
						panic(unsupported("fmt of slice with symbolic non-string elements"))
					}
					parts = append(parts, strBytes(e)...)
				}
				parts = append(parts, uint8(']'))
				subst[k] = mkStr(parts)
				hostArgs[k] = phArg{k}
				continue
			}
		}
		hv, okc := i.toHost(fr, it, anyRT)
		if !okc {
			if it.t != nil {
				// un-modelled operand (struct, pointer...): render a stable token
				switch it.v.(type) {
				case *value, structure, *omap, *closure, *ssa.Function, array, []value:
					if verbOf[k] == 'T' {
						hostArgs[k] = typeName(it.t)
						override[k] = 's'
						continue
					}
					hostArgs[k] = fmt.Sprintf("<%s>", typeName(it.t))
					continue
				}
			}
			panic(unsupported("fmt operand %s (%T) at %s", toString(a), it.v, fr.where()))
		}
		if verbOf[k] == 'T' && it.t != nil {
			hostArgs[k] = typeName(it.t)
			override[k] = 's'
			continue
		}
		if hv.IsValid() && hv.CanInterface() {
			hostArgs[k] = hv.Interface()
		} else {
			hostArgs[k] = nil
		}
	}
	if len(override) > 0 {
		hostFormat = rewriteVerbs(format, override)
	}
	out := fmt.Sprintf(hostFormat, hostArgs...)
	if len(subst) == 0 {
		return out, wraps
	}
	// splice placeholders
	var res []value
	for {
		j := strings.Index(out, "\x00\x01")
		if j < 0 {
			res = append(res, strBytes(out)...)
			break
		}
		res = append(res, strBytes(out[:j])...)
		out = out[j+2:]
		e := strings.IndexByte(out, '\x02')
		spec := out[:e]
		out = out[e+1:]
		semi := strings.IndexByte(spec, ';')
		k, _ := strconv.Atoi(spec[:semi])
		verb := spec[semi+1]
		sv := subst[k]
		switch verb {
		case 's', 'v', 'w':
			res = append(res, strBytes(sv)...)
		case 'q':
			// %q of a string is strconv.Quote: run the real function on the symbolic text.
			if qf := fr.i.prog.ImportedPackage("strconv"); qf != nil && qf.Func("Quote") != nil && isStr(sv) {
				res = append(res, strBytes(call(fr.i, fr, 0, qf.Func("Quote"), []value{sv}))...)
				break
			}
			res = append(res, uint8('"'))
			for range strBytes(sv) {
				t := fr.i.p.Fresh("opaque", 8)
				t.opaque = true
				res = append(res, symv{t, types.Uint8})
			}
			res = append(res, uint8('"'))
		default:
			panic(unsupported("fmt verb %%%c on symbolic string", verb))
		}
	}
	return mkStr(res), wraps
}

// rewriteVerbs replaces the verb of selected operands.
func rewriteVerbs(format string, override map[int]rune) string {
	var sb strings.Builder
	arg := 0
	for k := 0; k < len(format); k++ {
		sb.WriteByte(format[k])
		if format[k] != '%' {
			continue
		}
		k++
		for k < len(format) && strings.IndexByte("+-# 0123456789.", format[k]) >= 0 {
			sb.WriteByte(format[k])
			k++
		}
		if k >= len(format) {
			break
		}
		if format[k] == '%' {
			sb.WriteByte('%')
			continue
		}
		if r, ok := override[arg]; ok {
			sb.WriteRune(r)
		} else {
			sb.WriteByte(format[k])
		}
		arg++
	}
	return sb.String()
}

// typeNameArg formats as its own text under %T... it is passed through %T as a
// value whose dynamic type prints as the wanted name, which is impossible in
// general; instead the caller's format keeps %T and this type implements
// Formatter to print the name.
type typeNameArg string

func (t typeNameArg) Format(f fmt.State, verb rune) { fmt.Fprint(f, string(t)) }

func typeName(t types.Type) string {
	return types.TypeString(t, func(p *types.Package) string { return p.Name() })
}

func (fr *frame) fmtArgs(v value) []value {
	if v == nil {
		return nil
	}
	return v.([]value)
}

// newError builds the value errors.New / fmt.Errorf would return.
func (fr *frame) newFmtError(msg value, args []value, wraps []int) value {
	i := fr.i
	fmtPkg := i.prog.ImportedPackage("fmt")
	switch len(wraps) {
	case 0:
		errPkg := i.prog.ImportedPackage("errors")
		t := errPkg.Type("errorString").Type()
		var cell value = structure{msg}
		return iface{t: types.NewPointer(t), v: &cell}
	case 1:
		t := fmtPkg.Type("wrapError").Type()
		var e value = iface{}
		if wraps[0] < len(args) {
			if it, ok := args[wraps[0]].(iface); ok && it.t != nil && i.isError(it.t) {
				e = it
			}
		}
		var cell value = structure{msg, e}
		return iface{t: types.NewPointer(t), v: &cell}
	}
	t := fmtPkg.Type("wrapErrors").Type()
	var errs []value
	for _, w := range wraps {
		if w < len(args) {
			if it, ok := args[w].(iface); ok && it.t != nil && i.isError(it.t) {
				errs = append(errs, it)
			}
		}
	}
	var cell value = structure{msg, errs}
	return iface{t: types.NewPointer(t), v: &cell}
}

func (i *Interp) isError(t types.Type) bool {
	if ht, ok := t.(*hostType); ok {
		return ht.rt.Implements(errorRT)
	}
	return i.findMethod(t, "Error") != nil
}

// writeTo performs w.Write(p) for an interpreted io.Writer.
func (fr *frame) writeTo(w value, s value) {
	it := w.(iface)
	if it.t == nil {
		fr.rtPanic("invalid memory address or nil pointer dereference")
	}
	if n, ok := it.v.(native); ok {
		hw, ok := n.x.(interface{ Write([]byte) (int, error) })
		cs, isC := s.(string)
		if !ok || !isC {
			panic(unsupported("write of symbolic text to host writer %T", n.x))
		}
		hw.Write([]byte(cs))
		return
	}
	m := fr.i.findMethod(it.t, "Write")
	if m == nil {
		panic(fmt.Sprintf("no Write method on %s", it.t))
	}
	b := strBytes(s)
	nb := make([]value, len(b))
	copy(nb, b)
	call(fr.i, fr, 0, m, []value{it.v, nb})
}

// unfinishedVerb: the format text ends inside a verb ("%", "%-", "%05" ...).
func unfinishedVerb(f string) bool {
	for i := 0; i < len(f); i++ {
		if f[i] != '%' {
			continue
		}
		i++
		for i < len(f) && strings.IndexByte("+-# 0123456789.", f[i]) >= 0 {
			i++
		}
		if i >= len(f) {
			return true
		}
	}
	return false
}

// symSprintfV formats with a format string that may itself hold symbolic bytes. Every symbolic
// byte is decided (a fork of the path): either it is not '%' and stands for itself in the output,
// or it is '%' and the byte after it - if symbolic as well - is decided among the verbs '%', 's',
// 'd', 'v', 'q' (any other verb character is reported as unsupported, i.e. inconclusive). The
// concrete chunks between literal symbolic bytes are formatted with the operands they consume.
func (fr *frame) symSprintfV(fv value, args []value) (value, []int) {
	if s, ok := fv.(string); ok {
		return fr.symSprintf(s, args)
	}
	f := fr.f()
	is := func(c value, b byte) bool {
		return fr.i.p.Branch(strEqTerm(f, mkStr([]value{c}), string([]byte{b})))
	}
	b := strBytes(fv)
	var out value = ""
	var chunk []byte
	var wraps []int
	argi := 0
	flush := func(last bool) {
		cf := string(chunk)
		chunk = chunk[:0]
		verbs, ok := parseFormat(cf)
		if !ok {
			panic(unsupported("symbolic format string with indexed operands"))
		}
		lo := argi
		if lo > len(args) {
			lo = len(args)
		}
		hi := len(args)
		if !last && lo+len(verbs) < hi {
			hi = lo + len(verbs)
		}
		s, w := fr.symSprintf(cf, args[lo:hi])
		for _, x := range w {
			wraps = append(wraps, x+lo)
		}
		argi += len(verbs)
		out = strConcat(out, s)
	}
	for k := 0; k < len(b); k++ {
		if c, ok := b[k].(uint8); ok {
			chunk = append(chunk, c)
			if c == '%' && k+1 < len(b) {
				if _, conc := b[k+1].(uint8); !conc {
					v := byte(0)
					for _, cand := range []byte("%sdvq") {
						if is(b[k+1], cand) {
							v = cand
							break
						}
					}
					if v == 0 {
						panic(unsupported("symbolic verb character in a format string"))
					}
					chunk = append(chunk, v)
					k++
				}
			}
			continue
		}
		if !is(b[k], '%') {
			// a literal byte: it must not sit inside an unfinished verb of the chunk before it
			if unfinishedVerb(string(chunk)) {
				panic(unsupported("symbolic byte inside a format verb"))
			}
			flush(false)
			out = strConcat(out, mkStr([]value{b[k]}))
			continue
		}
		chunk = append(chunk, '%')
		if k+1 == len(b) {
			break
		}
		if c, conc := b[k+1].(uint8); conc {
			chunk = append(chunk, c)
			k++
			continue
		}
		v := byte(0)
		for _, cand := range []byte("%sdvq") {
			if is(b[k+1], cand) {
				v = cand
				break
			}
		}
		if v == 0 {
			panic(unsupported("symbolic verb character in a format string"))
		}
		chunk = append(chunk, v)
		k++
	}
	flush(true)
	return out, wraps
}

func init() {
	intrinsics["fmt.Sprintf"] = func(fr *frame, fn *ssa.Function, a []value) value {
		s, _ := fr.symSprintfV(a[0], fr.fmtArgs(a[1]))
		return s
	}
	intrinsics["fmt.Errorf"] = func(fr *frame, fn *ssa.Function, a []value) value {
		args := fr.fmtArgs(a[1])
		s, wraps := fr.symSprintfV(a[0], args)
		return fr.newFmtError(s, args, wraps)
	}
	sprint := func(ln bool) intrinsic {
		return func(fr *frame, fn *ssa.Function, a []value) value {
			args := fr.fmtArgs(a[0])
			var sb strings.Builder
			for k := range args {
				if k > 0 && ln {
					sb.WriteByte(' ')
				}
				sb.WriteString("%v")
			}
			if ln {
				sb.WriteByte('\n')
			}
			if !ln && len(args) > 1 {
				// Sprint adds a space between operands when neither is a string.
				isString := func(x value) bool {
					it, ok := x.(iface)
					if !ok || it.t == nil {
						return false
					}
					b, ok := it.t.Underlying().(*types.Basic)
					return ok && b.Info()&types.IsString != 0
				}
				sb.Reset()
				for k := range args {
					if k > 0 && !isString(args[k-1]) && !isString(args[k]) {
						sb.WriteByte(' ')
					}
					sb.WriteString("%v")
				}
			}
			s, _ := fr.symSprintf(sb.String(), args)
			return s
		}
	}
	intrinsics["fmt.Sprint"] = sprint(false)
	intrinsics["fmt.Sprintln"] = sprint(true)
	intrinsics["fmt.Fprintf"] = func(fr *frame, fn *ssa.Function, a []value) value {
		s, _ := fr.symSprintfV(a[1], fr.fmtArgs(a[2]))
		fr.writeTo(a[0], s)
		return tuple{strLen(s), iface{}}
	}
	intrinsics["fmt.Fprint"] = func(fr *frame, fn *ssa.Function, a []value) value {
		s := sprint(false)(fr, fn, a[1:])
		fr.writeTo(a[0], s)
		return tuple{strLen(s), iface{}}
	}
	intrinsics["fmt.Fprintln"] = func(fr *frame, fn *ssa.Function, a []value) value {
		s := sprint(true)(fr, fn, a[1:])
		fr.writeTo(a[0], s)
		return tuple{strLen(s), iface{}}
	}
	nop := func(fr *frame, fn *ssa.Function, a []value) value { return tuple{0, iface{}} }
	intrinsics["fmt.Printf"] = nop
	intrinsics["fmt.Println"] = nop
	intrinsics["fmt.Print"] = nop
}
