package main

import (
	"encoding/json"
	"go/types"
	"os"
	"path/filepath"
	"sort"

	"golang.org/x/tools/go/ssa"
)

// Embedded data files. go:embed variables are filled in by the compiler, not by
// an initialiser, so the SSA program sees an empty embed.FS. The one reader
// Atlas has (the MySQL collation/charset tables, JSON files under
// sql/mysql/internal/mysqlversion/is) is served from the real files of the tree
// under analysis.
func init() {
	intrinsics["ariga.io/atlas/sql/mysql/internal/mysqlversion.decode"] = func(fr *frame, fn *ssa.Function, a []value) value {
		name, ok := a[0].(string)
		if !ok {
			panic(unsupported("mysqlversion.decode with a symbolic file name"))
		}
		dir := filepath.Dir(fr.i.prog.Fset.Position(fn.Pos()).Filename)
		mt := fn.Signature.Results().At(0).Type().Underlying().(*types.Map)
		data, err := os.ReadFile(filepath.Join(dir, filepath.FromSlash(name)))
		if err != nil {
			return tuple{(*omap)(nil), fr.i.errFromHost(err)}
		}
		var m map[string]string
		if err := json.Unmarshal(data, &m); err != nil {
			return tuple{(*omap)(nil), fr.i.errFromHost(err)}
		}
		keys := make([]string, 0, len(m))
		for k := range m {
			keys = append(keys, k)
		}
		sort.Strings(keys)
		om := newOmap(mt.Key())
		for _, k := range keys {
			om.insert(fr, k, m[k])
		}
		return tuple{om, iface{}}
	}
}
