package main

import (
	"errors"
	"go/types"
	"io"

	"golang.org/x/tools/go/ssa"
)

// fmt.Sscanf on symbolic input, for formats made of %s verbs (into *string),
// literal bytes and blanks - the shape line-oriented parsers use. Scanning
// rules of package fmt for Sscanf: blanks in the format match zero or more
// blanks of the input; a literal must match exactly; %s skips leading blanks and
// takes the following run of non-blank bytes (at least one); input left over
// after the format is ignored; a newline in the input does not match anything
// here (formats with newlines are declined). Every "is this byte a blank / this
// literal" question on a symbolic byte is a branch decided by the solver; bytes
// of a hash token are opaque, never blank and never equal to a literal.
func init() {
	intrinsics["fmt.Sscanf"] = func(fr *frame, fn *ssa.Function, a []value) value {
		format, ok := a[1].(string)
		if !ok {
			panic(declined{})
		}
		args, _ := a[2].([]value)
		in := strBytes(a[0])
		f := fr.f()
		p := fr.i.p
		isTok := func(b value) bool {
			s, ok := b.(symv)
			return ok && s.t.tok != nil
		}
		is := func(b value, c byte) bool {
			if cb, ok := b.(uint8); ok {
				return cb == c
			}
			if isTok(b) {
				return false
			}
			return p.Branch(f.Eq(byteTerm(f, b), f.Const(8, uint64(c))))
		}
		// fmt's space table restricted to ASCII: \t \v \f \r and the blank; multi-byte
		// runes (U+0085, U+00A0, ...) are not modelled: a non-ASCII byte gives the path up.
		blank := func(b value) bool {
			if cb, ok := b.(uint8); ok {
				if cb >= 0x80 {
					panic(unsupported("fmt.Sscanf on non-ASCII input"))
				}
			} else if !isTok(b) && !p.Branch(f.Bin(OpUlt, byteTerm(f, b), f.Const(8, 0x80))) {
				panic(unsupported("fmt.Sscanf on non-ASCII input"))
			}
			return is(b, ' ') || is(b, '\t') || is(b, '\r') || is(b, '\v') || is(b, '\f')
		}
		fail := func(n int, err error) value { return tuple{n, fr.i.errFromHost(err)} }
		i, done := 0, 0
		for k := 0; k < len(format); k++ {
			c := format[k]
			switch {
			case c == '\n':
				panic(declined{})
			case c == ' ' || c == '\t' || c == '\r':
				for i < len(in) && blank(in[i]) {
					i++
				}
			case c == '%':
				if k+1 >= len(format) || format[k+1] != 's' {
					panic(declined{})
				}
				k++
				if done >= len(args) {
					return fail(done, errors.New("too few operands for format '%s'"))
				}
				it, ok := args[done].(iface)
				if !ok {
					panic(declined{})
				}
				ptr, isPtr := it.v.(*value)
				pt, isPT := it.t.Underlying().(*types.Pointer)
				if !isPtr || !isPT || !types.Identical(pt.Elem().Underlying(), types.Typ[types.String]) {
					panic(declined{})
				}
				for i < len(in) && blank(in[i]) {
					i++
				}
				if i < len(in) && is(in[i], '\n') {
					return fail(done, errors.New("unexpected newline"))
				}
				if i >= len(in) {
					return fail(done, io.ErrUnexpectedEOF)
				}
				start := i
				for i < len(in) && !blank(in[i]) && !is(in[i], '\n') {
					i++
				}
				*ptr = mkStr(append([]value(nil), in[start:i]...))
				done++
			default:
				if i >= len(in) {
					return fail(done, io.ErrUnexpectedEOF)
				}
				if !is(in[i], c) {
					return fail(done, errors.New("input does not match format"))
				}
				i++
			}
		}
		return tuple{done, iface{}}
	}
}
