package main

import (
	"fmt"
	"go/types"
	"os"
	"reflect"
	"runtime/debug"
	"strconv"
	"strings"
	"sync"
	"time"

	"golang.org/x/tools/go/packages"
	"golang.org/x/tools/go/ssa"
	"golang.org/x/tools/go/ssa/ssautil"
)

type Config struct {
	Dir          string
	Pkg          string
	Harness      string
	Files        []string // harness source files (overlaid into the package dir)
	XFiles       map[string][]string // import path -> files overlaid into that (other) package's dir
	Workers      int
	MaxSteps     int64
	MaxDecisions int
	MaxPaths     int
	Cross        bool
	ASCIIOnly    bool
	Solver       string
	Samples      int
	Trace        bool
	Reinit       bool
	TimeLimit    time.Duration
	Stubs        map[string]string
	MapPerm      bool
	MapDev       int // max number of permuted map ranges per path (0 = unlimited)
	Domain       bool
}

type Program struct {
	prog    *ssa.Program
	pkg     *ssa.Package
	pkgs    []*packages.Package
	pkgDir  string
	pkgName string
}

type Worker struct {
	id              int
	ex              *Explorer
	cfg             *Config
	P               *Program
	solver          *Solver
	cross           []*Solver
	interp          *Interp
	harnessPkg      *ssa.Package
	harnessFn       *ssa.Function
	domainDecided   int64
	modelDecided    int64
	assertQueries   int
	assertsChecked  int64
	crossChecked    int
	crossDisagree   int
	intrinsicsUsed  map[string]bool
	nativesUsed     map[string]bool
	stubsUsed       map[string]bool
	samples         []PathSample
	steps           int64
	forks           int64
	maxDepth        int
	tf              *TermFactory
	solverDirty     bool
	pathsSinceReset int
}

// LoadProgram loads the package under test with the harness files overlaid.
func LoadProgram(cfg *Config) (*Program, error) {
	overlay := map[string][]byte{}
	// find package dir
	pc := &packages.Config{Mode: packages.NeedName | packages.NeedFiles, Dir: cfg.Dir, Env: loadEnv()}
	base, err := packages.Load(pc, cfg.Pkg)
	if err != nil {
		return nil, err
	}
	if len(base) != 1 || len(base[0].GoFiles) == 0 {
		return nil, fmt.Errorf("cannot resolve package %s in %s: %v", cfg.Pkg, cfg.Dir, base[0].Errors)
	}
	pkgDir := dirOf(base[0].GoFiles[0])
	for _, f := range cfg.Files {
		data, err := os.ReadFile(f)
		if err != nil {
			return nil, err
		}
		overlay[pkgDir+"/"+baseName(f)] = data
	}
	for ip, fs := range cfg.XFiles {
		other, err := packages.Load(pc, ip)
		if err != nil {
			return nil, err
		}
		if len(other) != 1 || len(other[0].GoFiles) == 0 {
			return nil, fmt.Errorf("cannot resolve package %s for -xfile", ip)
		}
		od := dirOf(other[0].GoFiles[0])
		for _, f := range fs {
			data, err := os.ReadFile(f)
			if err != nil {
				return nil, err
			}
			overlay[od+"/"+baseName(f)] = data
		}
	}
	lc := &packages.Config{Mode: packages.LoadAllSyntax, Dir: cfg.Dir, Overlay: overlay, Env: loadEnv()}
	pkgs, err := packages.Load(lc, cfg.Pkg)
	if err != nil {
		return nil, err
	}
	nerr := 0
	packages.Visit(pkgs, nil, func(p *packages.Package) {
		for _, e := range p.Errors {
			if nerr < 10 {
				fmt.Fprintf(os.Stderr, "load error: %s: %v\n", p.PkgPath, e)
			}
			nerr++
		}
	})
	if nerr > 0 {
		return nil, fmt.Errorf("%d package load errors", nerr)
	}
	prog, spkgs := ssautil.AllPackages(pkgs, ssa.InstantiateGenerics|ssa.SanityCheckFunctions&0)
	prog.Build()
	return &Program{prog: prog, pkg: spkgs[0], pkgs: pkgs, pkgDir: pkgDir, pkgName: base[0].Name}, nil
}

func loadEnv() []string {
	env := os.Environ()
	// GOSUMDB / GOTOOLCHAIN are left to the caller: the cmd/atlas module needs the
	// cached go1.23.6 toolchain switch, which GOSUMDB=off would refuse.
	env = append(env, "GOFLAGS=-mod=mod", "GOPROXY=off")
	return env
}

func dirOf(p string) string {
	if i := strings.LastIndexByte(p, '/'); i >= 0 {
		return p[:i]
	}
	return "."
}

func baseName(p string) string {
	if i := strings.LastIndexByte(p, '/'); i >= 0 {
		return p[i+1:]
	}
	return p
}

func (w *Worker) newInterp() {
	i := &Interp{
		prog:      w.P.prog,
		w:         w,
		globals:   map[*ssa.Global]*value{},
		pkgState:  map[*ssa.Package]int{},
		onceDone:  map[*value]bool{},
		stubs:     map[string]*ssa.Function{},
		typeCache: map[string]types.Type{},
		hostTypes: map[reflect.Type]types.Type{},
		funcsSeen: map[*ssa.Function]bool{},
		traceOn:   w.cfg.Trace,
		mapPerm:   w.cfg.MapPerm,
	}
	if old := w.interp; old != nil {
		i.funcsSeen = old.funcsSeen
	}
	rt := w.P.prog.ImportedPackage("runtime")
	if rt != nil {
		if et := rt.Type("errorString"); et != nil {
			i.errType = et.Type()
		}
	}
	if i.errType == nil {
		i.errType = types.Typ[types.String]
	}
	for from, to := range w.cfg.Stubs {
		fn := w.harnessPkg.Func(to)
		if fn == nil {
			panic("stub function not found: " + to)
		}
		i.stubs[from] = fn
	}
	w.interp = i
	// run initialisers with a throw-away path (init is concrete)
	i.p = &Path{w: w, f: NewTermFactory(), domains: map[string]*dom{}, entangled: map[string]bool{}, inputSet: map[string]*Term{}, choices: map[string]uint64{}, reached: map[string]bool{}}
	i.runInit(w.harnessPkg)
	i.p = nil
}

func (w *Worker) run(wg *sync.WaitGroup) {
	defer wg.Done()
	for {
		prefix, ok := w.ex.next()
		if !ok {
			return
		}
		w.runPath(prefix)
		w.ex.finish()
		if !w.ex.deadline.IsZero() && time.Now().After(w.ex.deadline) {
			w.ex.halt("time limit reached")
		}
	}
}

func (w *Worker) runPath(prefix []Decision) {
	ex := w.ex
	if w.interp == nil || w.interp.dirty || w.cfg.Reinit {
		func() {
			defer func() {
				if r := recover(); r != nil {
					st := ""
					if w.interp != nil && w.interp.curFrame != nil {
						st = "\n" + w.interp.curFrame.stack()
					}
					ex.halt(fmt.Sprintf("package initialisation failed: %v%s", describePanic(r), st))
				}
			}()
			w.newInterp()
		}()
		if w.interp == nil || w.interp.p != nil {
			return
		}
	}
	i := w.interp
	if w.tf == nil {
		w.tf = NewTermFactory()
	} else {
		w.tf.Recycle()
	}
	w.pathsSinceReset++
	if w.solverDirty || w.pathsSinceReset >= 32 {
		// z3 4.8 slows down as popped definitions accumulate: start afresh regularly.
		w.solver.Reset()
		w.solverDirty = false
		w.pathsSinceReset = 0
	}
	scope := w.solver.Push()
	p := &Path{
		w: w, f: w.tf, prefix: prefix,
		domains: map[string]*dom{}, entangled: map[string]bool{},
		inputSet: map[string]*Term{}, choices: map[string]uint64{}, reached: map[string]bool{},
		model: map[string]uint64{}, modelValid: true,
	}
	i.p = p
	i.depth = 0
	i.mapPerm = w.cfg.MapPerm
	end := "ok"
	reason := ""
	func() {
		defer func() {
			r := recover()
			if r == nil {
				return
			}
			switch r := r.(type) {
			case abortPath:
				end = r.kind
				reason = r.reason
			case targetPanic:
				// escaped panic: a violation (all properties imply "never crashes")
				end = "panic"
				msg := "panic: " + i.panicString(nil, r.v)
				func() {
					defer func() {
						if r2 := recover(); r2 != nil {
							if ap, ok := r2.(abortPath); ok && ap.kind == "violated" {
								return
							}
							end = "solver"
							reason = fmt.Sprint(r2)
						}
					}()
					p.Assert(p.f.False, "panic", msg, firstLines(r.at, 6))
				}()
			case internalError:
				end = "internal"
				reason = r.msg + "\n" + r.stack
			default:
				end = "internal"
				reason = fmt.Sprintf("%v\n%s", r, debug.Stack())
			}
		}()
		call(i, nil, 0, w.harnessFn, nil)
	}()
	if end == "ok" && len(w.samples) < w.cfg.Samples {
		func() {
			defer func() { recover() }()
			i.p = p
			p.ensureModel()
			m := map[string]uint64{}
			for _, v := range p.inputs {
				m[v.name] = p.model[v.name]
			}
			ch := map[string]uint64{}
			for k, v := range p.choices {
				ch[k] = v
			}
			// observations are rendered under the sample's own model
			var obs []string
			for _, o := range p.observedRaw {
				obs = append(obs, o.label+"="+strconv.Quote(i.render(nil, o.v)))
			}
			i.p = nil
			w.samples = append(w.samples, PathSample{Decisions: p.decStr(), Model: m, Choices: ch, Observed: obs, End: end})
		}()
	}
	if end == "solver" {
		w.solverDirty = true
	} else {
		w.solver.Pop(scope)
	}
	for _, o := range i.oncePath {
		delete(i.onceDone, o)
	}
	i.oncePath = nil
	i.p = nil
	w.steps += p.steps
	w.forks += int64(p.forked)
	if len(p.decisions) > w.maxDepth {
		w.maxDepth = len(p.decisions)
	}
	ex.mu.Lock()
	switch end {
	case "ok", "violated", "panic":
		ex.stats.Paths++
		for l := range p.reached {
			ex.stats.Reached[l]++
		}
	case "pruned":
		ex.stats.Pruned++
	default:
		ex.stats.Aborted++
		key := end + ": " + firstLine(reason)
		ex.stats.AbortReasons[key]++
		if ex.stats.AbortReasons[key] == 1 && (end == "internal" || w.cfg.Trace) {
			fmt.Fprintf(os.Stderr, "ABORT %s\n%s\n", end, reason)
		}
	}
	total := ex.stats.Paths + ex.stats.Pruned + ex.stats.Aborted
	if total >= ex.maxPaths && !ex.stop {
		ex.stop = true
		ex.stopReason = "path budget reached"
		ex.cond.Broadcast()
	}
	ex.mu.Unlock()
}

func firstLines(s string, n int) string {
	lines := strings.Split(s, "\n")
	if len(lines) > n {
		lines = lines[:n]
	}
	return strings.Join(lines, "\n")
}

func firstLine(s string) string {
	if i := strings.IndexByte(s, '\n'); i >= 0 {
		return s[:i]
	}
	return s
}

func describePanic(r any) string {
	switch r := r.(type) {
	case abortPath:
		return r.kind + ": " + r.reason
	case internalError:
		return r.msg + "\n" + r.stack
	case targetPanic:
		return "target panic: " + toString(r.v)
	}
	return fmt.Sprintf("%v\n%s", r, debug.Stack())
}
