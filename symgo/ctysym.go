package main

import (
	"go/token"
	"unicode/utf8"

	"golang.org/x/tools/go/ssa"
)

// cty.NormalizeString applies Unicode NFC (golang.org/x/text/unicode/norm, whose
// tables are not modelled). NFC is the identity on ASCII, which is all the
// harnesses feed through it; a path with a non-ASCII byte is given up as
// unsupported (reported inconclusive), never silently assumed away.
func init() {
	intrinsics["github.com/zclconf/go-cty/cty.NormalizeString"] = func(fr *frame, fn *ssa.Function, a []value) value {
		switch s := a[0].(type) {
		case string:
			for i := 0; i < len(s); i++ {
				if s[i] >= utf8.RuneSelf {
					panic(unsupported("cty.NormalizeString on a non-ASCII string"))
				}
			}
			return s
		case *sstr:
			f := fr.f()
			for _, b := range s.b {
				if c, ok := b.(uint8); ok {
					if c >= utf8.RuneSelf {
						panic(unsupported("cty.NormalizeString on a non-ASCII string"))
					}
					continue
				}
				if !fr.i.p.Branch(f.Bin(OpUlt, byteTerm(f, b), f.Const(8, 0x80))) {
					if fr.i.w.cfg.ASCIIOnly {
						panic(abortPath{kind: "pruned", reason: "non-ASCII byte under ASCII-only bound"})
					}
					panic(unsupported("cty.NormalizeString on a non-ASCII string"))
				}
			}
			return s
		}
		panic(unsupported("cty.NormalizeString on %T", a[0]))
	}
	// Numbers enter cty as *big.Float; arbitrary-precision arithmetic on a symbolic
	// mantissa (decimal printing divides in a loop) does not terminate usefully, so a
	// symbolic integer is case-split into its feasible values at this boundary.
	for _, name := range []string{"NumberIntVal", "NumberUIntVal"} {
		intrinsics["github.com/zclconf/go-cty/cty."+name] = func(fr *frame, fn *ssa.Function, a []value) value {
			sv, ok := a[0].(symv)
			if !ok {
				panic(declined{})
			}
			c := fr.i.p.Concretize(sv.t)
			return callSSA(fr.i, fr.caller, token.NoPos, fn, []value{mkInt(sv.k, c)}, nil)
		}
	}
	// the same boundary one level down: schemahcl.Int64Attr builds the big.Float itself
	for _, name := range []string{"SetInt64", "SetUint64", "SetFloat64"} {
		intrinsics["(*math/big.Float)."+name] = func(fr *frame, fn *ssa.Function, a []value) value {
			sv, ok := a[1].(symv)
			if !ok {
				panic(declined{})
			}
			c := fr.i.p.Concretize(sv.t)
			return callSSA(fr.i, fr.caller, token.NoPos, fn, []value{a[0], mkInt(sv.k, c)}, nil)
		}
	}
	intrinsics["math/big.NewInt"] = func(fr *frame, fn *ssa.Function, a []value) value {
		sv, ok := a[0].(symv)
		if !ok {
			panic(declined{})
		}
		c := fr.i.p.Concretize(sv.t)
		return callSSA(fr.i, fr.caller, token.NoPos, fn, []value{mkInt(sv.k, c)}, nil)
	}
}
