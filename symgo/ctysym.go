package main

import (
	"unicode/utf8"

	"golang.org/x/tools/go/ssa"
)

// cty.NormalizeString applies Unicode NFC (golang.org/x/text/unicode/norm, whose
// tables are not modelled). NFC is the identity on ASCII, which is all the
// harnesses feed through it; a path with a non-ASCII byte is given up as
// unsupported (reported inconclusive), never silently assumed away.
func init() {
	intrinsics["github.com/zclconf/go-cty/cty.NormalizeString"] = func(fr *frame, fn *ssa.Function, a []value) value {
		switch s := a[0].(type) {
		case string:
			for i := 0; i < len(s); i++ {
				if s[i] >= utf8.RuneSelf {
					panic(unsupported("cty.NormalizeString on a non-ASCII string"))
				}
			}
			return s
		case *sstr:
			f := fr.f()
			for _, b := range s.b {
				if c, ok := b.(uint8); ok {
					if c >= utf8.RuneSelf {
						panic(unsupported("cty.NormalizeString on a non-ASCII string"))
					}
					continue
				}
				if !fr.i.p.Branch(f.Bin(OpUlt, byteTerm(f, b), f.Const(8, 0x80))) {
					if fr.i.w.cfg.ASCIIOnly {
						panic(abortPath{kind: "pruned", reason: "non-ASCII byte under ASCII-only bound"})
					}
					panic(unsupported("cty.NormalizeString on a non-ASCII string"))
				}
			}
			return s
		}
		panic(unsupported("cty.NormalizeString on %T", a[0]))
	}
}
