package main

import (
	"math"
	"reflect"
)

// math functions that go through unsafe.Pointer in their source: executed by
// the host on concrete arguments.
func init() {
	nativeFuncs["math.Float64bits"] = reflect.ValueOf(math.Float64bits)
	nativeFuncs["math.Float64frombits"] = reflect.ValueOf(math.Float64frombits)
	nativeFuncs["math.Float32bits"] = reflect.ValueOf(math.Float32bits)
	nativeFuncs["math.Float32frombits"] = reflect.ValueOf(math.Float32frombits)
	nativeFuncs["math.IsNaN"] = reflect.ValueOf(math.IsNaN)
	nativeFuncs["math.IsInf"] = reflect.ValueOf(math.IsInf)
	nativeFuncs["math.Inf"] = reflect.ValueOf(math.Inf)
	nativeFuncs["math.NaN"] = reflect.ValueOf(math.NaN)
	nativeFuncs["math.Abs"] = reflect.ValueOf(math.Abs)
	nativeFuncs["math.Floor"] = reflect.ValueOf(math.Floor)
	nativeFuncs["math.Ceil"] = reflect.ValueOf(math.Ceil)
	nativeFuncs["math.Trunc"] = reflect.ValueOf(math.Trunc)
	nativeFuncs["math.Ldexp"] = reflect.ValueOf(math.Ldexp)
	nativeFuncs["math.Frexp"] = reflect.ValueOf(math.Frexp)
	nativeFuncs["math.Signbit"] = reflect.ValueOf(math.Signbit)
	nativeFuncs["math.Copysign"] = reflect.ValueOf(math.Copysign)
	nativeFuncs["math.Mod"] = reflect.ValueOf(math.Mod)
	nativeFuncs["math.Pow"] = reflect.ValueOf(math.Pow)
	nativeFuncs["math.Log2"] = reflect.ValueOf(math.Log2)
	nativeFuncs["math.Log10"] = reflect.ValueOf(math.Log10)
}
