package main

// Dispatch of calls that are not interpreted from SSA: harness runtime
// (verif*), engine intrinsics (symbolic-aware models of library functions),
// and the native fast path.

import (
	"fmt"
	"go/types"
	"os"
	"reflect"
	"sort"
	"strings"
	"sync"
	"time"
	"unicode/utf8"

	"golang.org/x/tools/go/ssa"
)

type intrinsic func(fr *frame, fn *ssa.Function, args []value) value

var intrinsics = map[string]intrinsic{}

// notHandled is returned (via panic-free protocol) by intrinsics that decline.
type declined struct{}

var initAllowList = map[string]bool{
	"errors": true, "io": true, "io/fs": true, "unicode": true, "unicode/utf8": true, "unicode/utf16": true,
	"strconv": true, "strings": true, "bytes": true, "sort": true, "slices": true, "maps": true, "cmp": true,
	"math": true, "math/bits": true, "path": true, "path/filepath": true,
	"database/sql/driver": true, "encoding/hex": true, "encoding/base64": true, "bufio": true,
	"golang.org/x/mod/semver": true, "text/template/parse": false, "hash": true, "iter": true,
	"container/list": true, "encoding": true, "html": false, "internal/itoa": true, "internal/stringslite": true,
	"internal/bytealg": false, "internal/oserror": true, "internal/cpu": true, "internal/byteorder": true, "database/sql": false, "time": false, "context": false,
}

// Atlas packages whose initialisers are not run (HCL machinery, generated ORM).
var initDenyAtlas = []string{
	"ariga.io/atlas/schemahcl",
	"ariga.io/atlas/cmd/atlas/internal/migrate/ent",
}

// initAllowExtra: packages enabled per run (-initallow).
var initAllowExtra = map[string]bool{}

func initAllowed(path string) bool {
	if initAllowExtra[path] {
		return true
	}
	for k := range initAllowExtra {
		if strings.HasSuffix(k, "/...") && (path == k[:len(k)-4] || strings.HasPrefix(path, k[:len(k)-3])) {
			return true
		}
	}
	if strings.HasPrefix(path, "ariga.io/atlas") {
		for _, d := range initDenyAtlas {
			if path == d || strings.HasPrefix(path, d+"/") {
				return false
			}
		}
		return true
	}
	return initAllowList[path]
}

func (i *Interp) tryExternal(fr *frame, fn *ssa.Function, name string, args []value) (value, bool) {
	if strings.HasPrefix(fn.Name(), "verif") && fn.Pkg != nil && i.w != nil && fn.Pkg == i.w.harnessPkg {
		if h, ok := verifRT[fn.Name()]; ok {
			return h(fr, fn, args), true
		}
	}
	if in, ok := intrinsics[name]; ok {
		r, handled := callIntrinsic(in, fr, fn, args)
		if handled {
			if i.w != nil {
				i.w.intrinsicsUsed[name] = true
			}
			return r, true
		}
	}
	// method on a host receiver
	if fn.Signature.Recv() != nil && len(args) > 0 {
		if n, ok := args[0].(native); ok {
			hm := &hostMethod{recv: n, name: fn.Name(), sig: fn.Signature}
			return hm.call(i, fr, args[1:]), true
		}
	}
	if hf, ok := nativeFuncs[name]; ok {
		if r, ok := i.callHost(fr, hf, args, fn.Signature.Results(), name); ok {
			return r, true
		}
		if nativeOnly[name] {
			panic(unsupported("%s called with symbolic arguments at %s", name, fr.caller.where()))
		}
	}
	return nil, false
}

func callIntrinsic(in intrinsic, fr *frame, fn *ssa.Function, args []value) (r value, handled bool) {
	defer func() {
		if x := recover(); x != nil {
			if _, ok := x.(declined); ok {
				handled = false
				return
			}
			panic(x)
		}
	}()
	return in(fr, fn, args), true
}

func allConcrete(args ...value) bool {
	for _, a := range args {
		switch a := a.(type) {
		case symv, *sstr:
			return false
		case []value:
			for _, e := range a {
				if isSym(e) {
					return false
				}
			}
		}
	}
	return true
}

// ---- harness runtime ---------------------------------------------------------

var verifRT = map[string]intrinsic{}

func init() {
	verifRT["verifBool"] = func(fr *frame, fn *ssa.Function, args []value) value {
		return symv{fr.i.p.NewInput(args[0].(string), 0), types.Bool}
	}
	verifRT["verifByte"] = func(fr *frame, fn *ssa.Function, args []value) value {
		return symv{fr.i.p.NewInput(args[0].(string), 8), types.Uint8}
	}
	verifRT["verifInt"] = func(fr *frame, fn *ssa.Function, args []value) value {
		p := fr.i.p
		f := p.f
		lo, hi := asInt64(args[1]), asInt64(args[2])
		if lo == hi {
			return int(lo)
		}
		t := p.NewInput(args[0].(string), 64)
		p.Assume(f.And(f.Bin(OpSle, f.Const(64, uint64(lo)), t), f.Bin(OpSle, t, f.Const(64, uint64(hi)))))
		return symv{t, types.Int}
	}
	verifRT["verifBytes"] = func(fr *frame, fn *ssa.Function, args []value) value {
		n := int(asInt64(args[1]))
		out := make([]value, n)
		for k := range out {
			out[k] = symv{fr.i.p.NewInput(fmt.Sprintf("%s_%d", args[0].(string), k), 8), types.Uint8}
		}
		return out
	}
	verifRT["verifString"] = func(fr *frame, fn *ssa.Function, args []value) value {
		n := int(asInt64(args[1]))
		out := make([]value, n)
		for k := range out {
			out[k] = symv{fr.i.p.NewInput(fmt.Sprintf("%s_%d", args[0].(string), k), 8), types.Uint8}
		}
		return mkStr(out)
	}
	verifRT["verifChoice"] = func(fr *frame, fn *ssa.Function, args []value) value {
		// A named choice has one value per path, as it has one value in the replayed model:
		// asking again under the same name returns what was chosen.
		name, n := args[0].(string), int(asInt64(args[1]))
		if name != "" {
			if v, ok := fr.i.p.choices[name]; ok && int(v) < n {
				return int(v)
			}
		}
		return fr.i.p.Choice(name, n)
	}
	verifRT["verifAssume"] = func(fr *frame, fn *ssa.Function, args []value) value {
		t, _, _ := termOf(fr.f(), args[0])
		fr.i.p.Assume(t)
		return nil
	}
	verifRT["verifAssert"] = func(fr *frame, fn *ssa.Function, args []value) value {
		t, _, _ := termOf(fr.f(), args[0])
		msg, _ := args[1].(string)
		fr.i.p.Assert(t, "assert", msg, fr.caller.where())
		return nil
	}
	verifRT["verifFail"] = func(fr *frame, fn *ssa.Function, args []value) value {
		msg, _ := args[0].(string)
		fr.i.p.Assert(fr.f().False, "assert", msg, fr.caller.where())
		return nil
	}
	verifRT["verifReach"] = func(fr *frame, fn *ssa.Function, args []value) value {
		fr.i.p.reached[args[0].(string)] = true
		return nil
	}
	verifRT["verifObserve"] = func(fr *frame, fn *ssa.Function, args []value) value {
		fr.i.p.observedRaw = append(fr.i.p.observedRaw, observedVal{args[0].(string), args[1]})
		return nil
	}
	verifRT["verifSymbolic"] = func(fr *frame, fn *ssa.Function, args []value) value {
		return true
	}
	verifRT["verifConcrete"] = func(fr *frame, fn *ssa.Function, args []value) value {
		// returns its string argument made concrete (case split over bytes)
		s := args[0]
		if cs, ok := s.(string); ok {
			return cs
		}
		bs := strBytes(s)
		out := make([]byte, len(bs))
		for k, b := range bs {
			if c, ok := b.(uint8); ok {
				out[k] = c
			} else {
				out[k] = byte(fr.i.p.Concretize(b.(symv).t))
			}
		}
		return string(out)
	}
	verifRT["verifMapOrder"] = func(fr *frame, fn *ssa.Function, args []value) value {
		fr.i.mapPerm = args[0].(bool)
		return nil
	}
}

// render prints a value for Observe (symbolic parts shown under the current model).
func (i *Interp) render(fr *frame, v value) string {
	if it, ok := v.(iface); ok {
		v = it.v
		if it.t == nil {
			return "<nil>"
		}
	}
	switch v := v.(type) {
	case string:
		return v
	case *sstr:
		i.p.ensureModel()
		bs := make([]byte, len(v.b))
		for k, b := range v.b {
			t := byteTerm(i.p.f, b)
			bs[k] = byte(t.Eval(i.p.model))
		}
		return string(bs)
	case symv:
		i.p.ensureModel()
		return fmt.Sprint(v.t.Eval(i.p.model))
	case []value:
		var sb strings.Builder
		sb.WriteString("[")
		for k, e := range v {
			if k > 0 {
				sb.WriteString(" ")
			}
			sb.WriteString(i.render(fr, e))
		}
		sb.WriteString("]")
		return sb.String()
	}
	return toString(v)
}

// ---- strings / bytes intrinsics --------------------------------------------------

func symIndex(fr *frame, s, sub value) int {
	n, m := strLen(s), strLen(sub)
	f := fr.f()
	for k := 0; k+m <= n; k++ {
		c := strEqTerm(f, strSlice(s, k, k+m), sub)
		if fr.i.p.Branch(c) {
			return k
		}
	}
	return -1
}

func symLastIndex(fr *frame, s, sub value) int {
	n, m := strLen(s), strLen(sub)
	f := fr.f()
	for k := n - m; k >= 0; k-- {
		c := strEqTerm(f, strSlice(s, k, k+m), sub)
		if fr.i.p.Branch(c) {
			return k
		}
	}
	return -1
}

func bytesAsStr(v value) value { return mkStr(v.([]value)) }

func init() {
	needSym := func(args ...value) {
		if allConcrete(args...) {
			panic(declined{})
		}
	}
	intrinsics["strings.Index"] = func(fr *frame, fn *ssa.Function, a []value) value {
		needSym(a...)
		return symIndex(fr, a[0], a[1])
	}
	intrinsics["strings.LastIndex"] = func(fr *frame, fn *ssa.Function, a []value) value {
		needSym(a...)
		return symLastIndex(fr, a[0], a[1])
	}
	intrinsics["strings.IndexByte"] = func(fr *frame, fn *ssa.Function, a []value) value {
		needSym(a...)
		return symIndex(fr, a[0], mkStr([]value{a[1]}))
	}
	intrinsics["strings.LastIndexByte"] = func(fr *frame, fn *ssa.Function, a []value) value {
		needSym(a...)
		return symLastIndex(fr, a[0], mkStr([]value{a[1]}))
	}
	intrinsics["internal/stringslite.Index"] = intrinsics["strings.Index"]
	intrinsics["internal/stringslite.IndexByte"] = intrinsics["strings.IndexByte"]
	intrinsics["strings.Count"] = func(fr *frame, fn *ssa.Function, a []value) value {
		needSym(a...)
		s, sub := a[0], a[1]
		if strLen(sub) == 0 {
			// utf8.RuneCountInString(s) + 1
			cnt := 0
			for k := 0; k < strLen(s); {
				_, w := fr.decodeRune(s, k)
				k += w
				cnt++
			}
			return cnt + 1
		}
		cnt := 0
		for {
			k := symIndex(fr, s, sub)
			if k < 0 {
				return cnt
			}
			cnt++
			s = strSlice(s, k+strLen(sub), strLen(s))
		}
	}
	intrinsics["bytes.Index"] = func(fr *frame, fn *ssa.Function, a []value) value {
		
		return symIndex(fr, bytesAsStr(a[0]), bytesAsStr(a[1]))
	}
	intrinsics["bytes.IndexByte"] = func(fr *frame, fn *ssa.Function, a []value) value {
		
		return symIndex(fr, bytesAsStr(a[0]), mkStr([]value{a[1]}))
	}
	intrinsics["bytes.LastIndex"] = func(fr *frame, fn *ssa.Function, a []value) value {
		
		return symLastIndex(fr, bytesAsStr(a[0]), bytesAsStr(a[1]))
	}
	intrinsics["bytes.Equal"] = func(fr *frame, fn *ssa.Function, a []value) value {
		return mkScalar(strEqTerm(fr.f(), bytesAsStr(a[0]), bytesAsStr(a[1])), types.Bool)
	}
	intrinsics["bytes.Compare"] = func(fr *frame, fn *ssa.Function, a []value) value {
		x, y := bytesAsStr(a[0]), bytesAsStr(a[1])
		return symCompare(fr, x, y)
	}
	intrinsics["strings.Compare"] = func(fr *frame, fn *ssa.Function, a []value) value {
		needSym(a...)
		return symCompare(fr, a[0], a[1])
	}
	intrinsics["bytes.Count"] = func(fr *frame, fn *ssa.Function, a []value) value {
		return intrinsics["strings.Count"](fr, fn, []value{bytesAsStr(a[0]), bytesAsStr(a[1])})
	}
	// strings.Builder: the real one uses unsafe.
	intrinsics["(*strings.Builder).String"] = func(fr *frame, fn *ssa.Function, a []value) value {
		b := (*a[0].(*value)).(structure)
		return mkStr(b[1].([]value))
	}
	intrinsics["(*strings.Builder).copyCheck"] = func(fr *frame, fn *ssa.Function, a []value) value { return nil }
	intrinsics["(*strings.Builder).grow"] = func(fr *frame, fn *ssa.Function, a []value) value {
		b := (*a[0].(*value)).(structure)
		old := b[1].([]value)
		n := int(asInt64(a[1]))
		nb := make([]value, len(old), 2*cap(old)+n)
		copy(nb, old)
		b[1] = nb
		return nil
	}
	intrinsics["unicode/utf8.DecodeRuneInString"] = func(fr *frame, fn *ssa.Function, a []value) value {
		r, w := fr.decodeRune(a[0], 0)
		return tuple{r, w}
	}
	intrinsics["unicode/utf8.DecodeRune"] = func(fr *frame, fn *ssa.Function, a []value) value {
		r, w := fr.decodeRuneBytes(a[0].([]value))
		return tuple{r, w}
	}
	intrinsics["unicode/utf8.DecodeLastRuneInString"] = func(fr *frame, fn *ssa.Function, a []value) value {
		r, w := fr.decodeLastRune(strBytes(a[0]))
		return tuple{r, w}
	}
	intrinsics["unicode/utf8.DecodeLastRune"] = func(fr *frame, fn *ssa.Function, a []value) value {
		r, w := fr.decodeLastRune(a[0].([]value))
		return tuple{r, w}
	}
	intrinsics["strings.TrimSpace"] = func(fr *frame, fn *ssa.Function, a []value) value {
		needSym(a...)
		s := a[0]
		lo, hi := 0, strLen(s)
		for lo < hi {
			r, w := fr.decodeRune(s, lo)
			if !fr.isSpace(r) {
				break
			}
			lo += w
		}
		for lo < hi {
			r, w := fr.decodeLastRune(strBytes(s)[lo:hi])
			if !fr.isSpace(r) {
				break
			}
			hi -= w
		}
		return strSlice(s, lo, hi)
	}
	// sort.Slice & friends use reflectlite.Swapper.
	sortSlice := func(stable bool) intrinsic {
		return func(fr *frame, fn *ssa.Function, a []value) value {
			it := a[0].(iface)
			sl, ok := it.v.([]value)
			if !ok {
				panic(unsupported("sort.Slice on %T", it.v))
			}
			less := a[1]
			idx := make([]int, len(sl))
			for k := range idx {
				idx[k] = k
			}
			// The callback takes indices into the live slice, so sort the
			// slice in place with a swapper, exactly like the real function.
			s := &sliceSorter{fr: fr, sl: sl, less: less}
			if stable {
				sort.Stable(s)
			} else {
				sort.Sort(s)
			}
			return nil
		}
	}
	intrinsics["sort.Slice"] = sortSlice(false)
	intrinsics["sort.SliceStable"] = sortSlice(true)
	intrinsics["sort.Strings"] = func(fr *frame, fn *ssa.Function, a []value) value {
		if !allConcrete(a[0]) {
			sl := a[0].([]value)
			sort.Sort(&strSorter{fr: fr, sl: sl})
			return nil
		}
		sl := a[0].([]value)
		ss := make([]string, len(sl))
		for k, e := range sl {
			ss[k] = e.(string)
		}
		sort.Strings(ss)
		for k := range sl {
			sl[k] = ss[k]
		}
		return nil
	}
	intrinsics["sort.Ints"] = func(fr *frame, fn *ssa.Function, a []value) value {
		needConcrete(a[0])
		sl := a[0].([]value)
		ss := make([]int, len(sl))
		for k, e := range sl {
			ss[k] = e.(int)
		}
		sort.Ints(ss)
		for k := range sl {
			sl[k] = ss[k]
		}
		return nil
	}
	// sync
	nop := func(fr *frame, fn *ssa.Function, a []value) value { return nil }
	for _, n := range []string{
		"(*sync.Mutex).Lock", "(*sync.Mutex).Unlock", "(*sync.RWMutex).Lock", "(*sync.RWMutex).Unlock",
		"(*sync.RWMutex).RLock", "(*sync.RWMutex).RUnlock", "(*sync.WaitGroup).Add", "(*sync.WaitGroup).Done", "(*sync.WaitGroup).Wait",
	} {
		intrinsics[n] = nop
	}
	intrinsics["(*sync.Mutex).TryLock"] = func(fr *frame, fn *ssa.Function, a []value) value { return true }
	intrinsics["(*sync.Once).Do"] = func(fr *frame, fn *ssa.Function, a []value) value {
		p := a[0].(*value)
		if fr.i.onceDone[p] {
			return nil
		}
		fr.i.onceDone[p] = true
		if !fr.i.inInit {
			fr.i.oncePath = append(fr.i.oncePath, p)
		}
		call(fr.i, fr, 0, a[1], nil)
		return nil
	}
	// sync.Pool: an item that was Put is handed out again by the next Get (last in, first
	// out) - one of the behaviours the runtime may show, and the one under which retaining
	// a pooled object after Put is visible. The pool content is per path.
	intrinsics["(*sync.Pool).Get"] = func(fr *frame, fn *ssa.Function, a []value) value {
		key := a[0].(*value)
		if items := fr.i.p.pools[key]; len(items) > 0 {
			it := items[len(items)-1]
			fr.i.p.pools[key] = items[:len(items)-1]
			return it
		}
		pool := (*key).(structure)
		newFn := pool[len(pool)-1]
		if f, ok := newFn.(*ssa.Function); ok && f == nil {
			return iface{}
		}
		return call(fr.i, fr, 0, newFn, nil)
	}
	intrinsics["(*sync.Pool).Put"] = func(fr *frame, fn *ssa.Function, a []value) value {
		if it, ok := a[1].(iface); ok && it.t == nil {
			return nil // Put(nil) is a no-op
		}
		if fr.i.p.pools == nil {
			fr.i.p.pools = map[*value][]value{}
		}
		key := a[0].(*value)
		fr.i.p.pools[key] = append(fr.i.p.pools[key], a[1])
		return nil
	}
	intrinsics["runtime.SetFinalizer"] = nop
	intrinsics["runtime.KeepAlive"] = nop
	intrinsics["time.Now"] = func(fr *frame, fn *ssa.Function, a []value) value {
		return zero(fn.Signature.Results().At(0).Type())
	}
	intrinsics["time.Since"] = func(fr *frame, fn *ssa.Function, a []value) value { return int64(0) }
	intrinsics["(time.Time).Sub"] = func(fr *frame, fn *ssa.Function, a []value) value { return int64(0) }
	intrinsics["(time.Time).IsZero"] = func(fr *frame, fn *ssa.Function, a []value) value {
		return isZeroValue(a[0])
	}
	intrinsics["(time.Time).UTC"] = func(fr *frame, fn *ssa.Function, a []value) value { return a[0] }
	intrinsics["(time.Time).Equal"] = func(fr *frame, fn *ssa.Function, a []value) value {
		return isZeroValue(a[0]) == isZeroValue(a[1])
	}
	// errors
	intrinsics["errors.Is"] = func(fr *frame, fn *ssa.Function, a []value) value {
		return fr.errorsIs(a[0].(iface), a[1].(iface))
	}
	intrinsics["errors.As"] = func(fr *frame, fn *ssa.Function, a []value) value {
		return fr.errorsAs(a[0].(iface), a[1].(iface))
	}
	intrinsics["errors.Unwrap"] = func(fr *frame, fn *ssa.Function, a []value) value {
		return fr.i.unwrapErr(fr, a[0].(iface))
	}
}

func needConcrete(v value) {
	if !allConcrete(v) {
		panic(unsupported("symbolic data passed to a concrete-only intrinsic"))
	}
}

// strSorter sorts possibly symbolic strings (comparisons fork the path).
type strSorter struct {
	fr *frame
	sl []value
}

func (s *strSorter) Len() int { return len(s.sl) }
func (s *strSorter) Less(a, b int) bool {
	return s.fr.i.p.Branch(strLtTerm(s.fr.f(), s.sl[a], s.sl[b]))
}
func (s *strSorter) Swap(a, b int) { s.sl[a], s.sl[b] = s.sl[b], s.sl[a] }

type sliceSorter struct {
	fr   *frame
	sl   []value
	less value
}

func (s *sliceSorter) Len() int { return len(s.sl) }
func (s *sliceSorter) Less(a, b int) bool {
	return s.fr.decide(call(s.fr.i, s.fr, 0, s.less, []value{a, b}))
}
func (s *sliceSorter) Swap(a, b int) { s.sl[a], s.sl[b] = s.sl[b], s.sl[a] }

func symCompare(fr *frame, x, y value) value {
	f := fr.f()
	if fr.i.p.Branch(strEqTerm(f, x, y)) {
		return 0
	}
	if fr.i.p.Branch(strLtTerm(f, x, y)) {
		return -1
	}
	return 1
}

// isSpace mirrors unicode.IsSpace for a possibly symbolic rune.
func (fr *frame) isSpace(r value) bool {
	s, ok := r.(symv)
	if !ok {
		rv := rune(asInt64(r))
		switch rv {
		case '\t', '\n', '\v', '\f', '\r', ' ', 0x85, 0xA0:
			return true
		}
		if rv <= 0xFF {
			return false
		}
		switch {
		case rv == 0x1680, rv >= 0x2000 && rv <= 0x200a, rv == 0x2028, rv == 0x2029, rv == 0x202f, rv == 0x205f, rv == 0x3000:
			return true
		}
		return false
	}
	f := fr.f()
	t := f.Resize(s.t, 32, true)
	c := func(v uint64) *Term { return f.Const(32, v) }
	eq := func(v uint64) *Term { return f.Eq(t, c(v)) }
	in := func(lo, hi uint64) *Term { return f.And(f.Bin(OpUle, c(lo), t), f.Bin(OpUle, t, c(hi))) }
	sp := f.Or(in(9, 13), f.Or(eq(' '), f.Or(eq(0x85), f.Or(eq(0xA0), f.Or(eq(0x1680), f.Or(in(0x2000, 0x200a),
		f.Or(eq(0x2028), f.Or(eq(0x2029), f.Or(eq(0x202f), f.Or(eq(0x205f), eq(0x3000)))))))))))
	return fr.i.p.Branch(sp)
}

// decodeLastRune mirrors utf8.DecodeLastRune.
func (fr *frame) decodeLastRune(bs []value) (value, int) {
	end := len(bs)
	if end == 0 {
		return int32(utf8.RuneError), 0
	}
	start := end - 1
	last := bs[start]
	if c, ok := last.(uint8); ok && c < utf8.RuneSelf {
		return int32(c), 1
	}
	f := fr.f()
	lt := byteTerm(f, last)
	if fr.i.p.Branch(f.Bin(OpUlt, lt, f.Const(8, 0x80))) {
		return mkScalar(f.Resize(lt, 32, false), types.Int32), 1
	}
	if fr.i.w.cfg.ASCIIOnly {
		panic(abortPath{kind: "pruned", reason: "non-ASCII byte under ASCII-only bound"})
	}
	lim := end - utf8.UTFMax
	if lim < 0 {
		lim = 0
	}
	for start--; start >= lim; start-- {
		// RuneStart(b) = b&0xC0 != 0x80
		bt := byteTerm(f, bs[start])
		isStart := f.Not(f.Eq(f.Bin(OpBAnd, bt, f.Const(8, 0xC0)), f.Const(8, 0x80)))
		if fr.i.p.Branch(isStart) {
			break
		}
	}
	if start < 0 {
		start = 0
	}
	r, size := fr.decodeRuneBytes(bs[start:end])
	if start+size != end {
		return int32(utf8.RuneError), 1
	}
	return r, size
}

// ---- errors.Is / errors.As ---------------------------------------------------------

func (fr *frame) errorsIs(err, target iface) value {
	if err.t == nil || target.t == nil {
		return err.t == nil && target.t == nil
	}
	i := fr.i
	comparable := true
	if _, isHost := target.t.(*hostType); !isHost {
		comparable = types.Comparable(target.t)
	}
	var walk func(e iface) bool
	walk = func(e iface) bool {
		for e.t != nil {
			if comparable && identical(e.t, target.t) {
				if fr.decide(fr.eqValue(e.t, e.v, target.v)) {
					return true
				}
			}
			if _, isN := e.v.(native); !isN {
				if m := i.findMethod(e.t, "Is"); m != nil && m.Signature.Params().Len() == 1 {
					if fr.decide(call(i, fr, 0, m, []value{e.v, target})) {
						return true
					}
				}
			}
			// Unwrap() []error
			if _, isN := e.v.(native); !isN {
				if m := i.findMethod(e.t, "Unwrap"); m != nil {
					if st, ok := m.Signature.Results().At(0).Type().Underlying().(*types.Slice); ok && st != nil {
						list := call(i, fr, 0, m, []value{e.v}).([]value)
						for _, sub := range list {
							if walk(sub.(iface)) {
								return true
							}
						}
						return false
					}
				}
			} else if mu, ok := e.v.(native).x.(interface{ Unwrap() []error }); ok {
				for _, sub := range mu.Unwrap() {
					if walk(i.errFromHost(sub)) {
						return true
					}
				}
				return false
			}
			e = i.unwrapErr(fr, e)
		}
		return false
	}
	return walk(err)
}

func (fr *frame) errorsAs(err, target iface) value {
	if err.t == nil {
		return false
	}
	if target.t == nil {
		fr.rtPanic("errors: target cannot be nil")
	}
	pt, ok := target.t.Underlying().(*types.Pointer)
	if !ok {
		fr.rtPanic("errors: target must be a non-nil pointer")
	}
	tp := target.v.(*value)
	if tp == nil {
		fr.rtPanic("errors: target must be a non-nil pointer")
	}
	want := pt.Elem()
	i := fr.i
	var walk func(e iface) bool
	walk = func(e iface) bool {
		for e.t != nil {
			if it, isI := want.Underlying().(*types.Interface); isI {
				okImpl := false
				if ht, isHost := e.t.(*hostType); isHost {
					okImpl = ht.implements(it)
				} else {
					okImpl = types.Implements(e.t, it)
				}
				if okImpl {
					*tp = e
					return true
				}
			} else if identical(e.t, want) {
				*tp = copyVal(e.v)
				return true
			}
			if _, isN := e.v.(native); !isN {
				if m := i.findMethod(e.t, "As"); m != nil && m.Signature.Params().Len() == 1 {
					if fr.decide(call(i, fr, 0, m, []value{e.v, target})) {
						return true
					}
				}
				if m := i.findMethod(e.t, "Unwrap"); m != nil {
					if _, ok := m.Signature.Results().At(0).Type().Underlying().(*types.Slice); ok {
						list := call(i, fr, 0, m, []value{e.v}).([]value)
						for _, sub := range list {
							if walk(sub.(iface)) {
								return true
							}
						}
						return false
					}
				}
			}
			e = i.unwrapErr(fr, e)
		}
		return false
	}
	return walk(err)
}

var _ = reflect.TypeOf

// rlType stands in for internal/reflectlite.Type values created by package
// initialisers (errors.errorType); the functions using them are intrinsics.
type rlType struct{}

func (r *rlType) Elem() *rlType    { return r }
func (r *rlType) Comparable() bool { return true }
func (r *rlType) String() string   { return "reflectlite.Type" }

func init() {
	intrinsics["internal/reflectlite.TypeOf"] = func(fr *frame, fn *ssa.Function, a []value) value {
		x := &rlType{}
		return iface{t: fr.i.typeOfHost(reflect.TypeOf(x)), v: native{x}}
	}
}

func init() {
	bin := func(op func(f *TermFactory, x, y *Term) *Term) intrinsic {
		return func(fr *frame, fn *ssa.Function, a []value) value {
			f := fr.f()
			x, _, _ := termOf(f, a[0])
			y, _, _ := termOf(f, a[1])
			return mkScalar(op(f, x, y), types.Bool)
		}
	}
	verifRT["verifAnd"] = bin(func(f *TermFactory, x, y *Term) *Term { return f.And(x, y) })
	verifRT["verifOr"] = bin(func(f *TermFactory, x, y *Term) *Term { return f.Or(x, y) })
	verifRT["verifImplies"] = bin(func(f *TermFactory, x, y *Term) *Term { return f.Implies(x, y) })
}

func init() {
	verifRT["verifKnown"] = func(fr *frame, fn *ssa.Function, a []value) value {
		for _, k := range strings.Split(os.Getenv("VERIF_KNOWN"), ",") {
			if k == a[0].(string) {
				return true
			}
		}
		return false
	}
}

func init() {
	ident := func(fr *frame, fn *ssa.Function, a []value) value { return a[0] }
	intrinsics["strings.Clone"] = ident
	intrinsics["internal/stringslite.Clone"] = ident
	intrinsics["strconv.cloneString"] = ident
	intrinsics["bytes.Clone"] = func(fr *frame, fn *ssa.Function, a []value) value {
		b := a[0].([]value)
		if b == nil {
			return b
		}
		return append([]value{}, b...)
	}
}

func init() {
	// internal/bytealg is assembly: model its entry points (concrete or symbolic).
	intrinsics["internal/bytealg.IndexByte"] = func(fr *frame, fn *ssa.Function, a []value) value {
		return symIndex(fr, bytesAsStr(a[0]), mkStr([]value{a[1]}))
	}
	intrinsics["internal/bytealg.IndexByteString"] = func(fr *frame, fn *ssa.Function, a []value) value {
		return symIndex(fr, a[0], mkStr([]value{a[1]}))
	}
	intrinsics["internal/bytealg.LastIndexByte"] = func(fr *frame, fn *ssa.Function, a []value) value {
		return symLastIndex(fr, bytesAsStr(a[0]), mkStr([]value{a[1]}))
	}
	intrinsics["internal/bytealg.LastIndexByteString"] = func(fr *frame, fn *ssa.Function, a []value) value {
		return symLastIndex(fr, a[0], mkStr([]value{a[1]}))
	}
	intrinsics["internal/bytealg.Index"] = func(fr *frame, fn *ssa.Function, a []value) value {
		return symIndex(fr, bytesAsStr(a[0]), bytesAsStr(a[1]))
	}
	intrinsics["internal/bytealg.IndexString"] = func(fr *frame, fn *ssa.Function, a []value) value {
		return symIndex(fr, a[0], a[1])
	}
	intrinsics["internal/bytealg.Equal"] = func(fr *frame, fn *ssa.Function, a []value) value {
		return mkScalar(strEqTerm(fr.f(), bytesAsStr(a[0]), bytesAsStr(a[1])), types.Bool)
	}
	intrinsics["internal/bytealg.Compare"] = func(fr *frame, fn *ssa.Function, a []value) value {
		return symCompare(fr, bytesAsStr(a[0]), bytesAsStr(a[1]))
	}
	intrinsics["internal/bytealg.Count"] = func(fr *frame, fn *ssa.Function, a []value) value {
		s, sub := bytesAsStr(a[0]), mkStr([]value{a[1]})
		cnt := 0
		for {
			k := symIndex(fr, s, sub)
			if k < 0 {
				return cnt
			}
			cnt++
			s = strSlice(s, k+1, strLen(s))
		}
	}
	intrinsics["internal/bytealg.CountString"] = func(fr *frame, fn *ssa.Function, a []value) value {
		s, sub := a[0], mkStr([]value{a[1]})
		cnt := 0
		for {
			k := symIndex(fr, s, sub)
			if k < 0 {
				return cnt
			}
			cnt++
			s = strSlice(s, k+1, strLen(s))
		}
	}
	intrinsics["internal/bytealg.MakeNoZero"] = func(fr *frame, fn *ssa.Function, a []value) value {
		n := int(asInt64(a[0]))
		out := make([]value, n)
		for k := range out {
			out[k] = uint8(0)
		}
		return out
	}
}

// sync.Map model: an ordered map per receiver, kept on the interpreter.
func (i *Interp) syncMapOf(p *value) *omap {
	if i.syncMaps == nil {
		i.syncMaps = map[*value]*omap{}
	}
	m := i.syncMaps[p]
	if m == nil {
		m = newOmap(types.NewInterfaceType(nil, nil))
		i.syncMaps[p] = m
	}
	if !i.inInit {
		i.dirty = true // mutated after initialisation: rebuild globals for the next path
	}
	return m
}

func init() {
	intrinsics["(*sync.Map).Load"] = func(fr *frame, fn *ssa.Function, a []value) value {
		m := fr.i.syncMaps[a[0].(*value)]
		if k := m.find(fr, a[1]); k >= 0 {
			return tuple{m.vals[k], true}
		}
		return tuple{iface{}, false}
	}
	intrinsics["(*sync.Map).Store"] = func(fr *frame, fn *ssa.Function, a []value) value {
		fr.i.syncMapOf(a[0].(*value)).insert(fr, a[1], a[2])
		return nil
	}
	intrinsics["(*sync.Map).LoadOrStore"] = func(fr *frame, fn *ssa.Function, a []value) value {
		if m := fr.i.syncMaps[a[0].(*value)]; m != nil {
			if k := m.find(fr, a[1]); k >= 0 {
				return tuple{m.vals[k], true}
			}
		}
		fr.i.syncMapOf(a[0].(*value)).insert(fr, a[1], a[2])
		return tuple{a[2], false}
	}
	intrinsics["(*sync.Map).Delete"] = func(fr *frame, fn *ssa.Function, a []value) value {
		fr.i.syncMapOf(a[0].(*value)).delete(fr, a[1])
		return nil
	}
	intrinsics["(*sync.Map).Range"] = func(fr *frame, fn *ssa.Function, a []value) value {
		m := fr.i.syncMaps[a[0].(*value)]
		if m == nil {
			return nil
		}
		keys := append([]value(nil), m.keys...)
		for _, k := range keys {
			if j := m.find(fr, k); j >= 0 {
				if !fr.decide(call(fr.i, fr, 0, a[1], []value{k, m.vals[j]})) {
					break
				}
			}
		}
		return nil
	}
}

func init() {
	// time.Time values are zero structures in the engine (time.Now is stubbed to
	// the zero time): formatting is done by the host on the zero time.
	intrinsics["(time.Time).Format"] = func(fr *frame, fn *ssa.Function, a []value) value {
		if !isZeroValue(a[0]) {
			panic(unsupported("formatting a non-zero time"))
		}
		layout, ok := a[1].(string)
		if !ok {
			panic(unsupported("symbolic time layout"))
		}
		return time.Time{}.UTC().Format(layout)
	}
	intrinsics["(time.Time).Unix"] = func(fr *frame, fn *ssa.Function, a []value) value { return int64(0) }
}

func init() {
	// errors.joinError.Error builds its text with unsafe.String.
	intrinsics["(*errors.joinError).Error"] = func(fr *frame, fn *ssa.Function, a []value) value {
		p := a[0].(*value)
		if p == nil {
			fr.rtPanic("invalid memory address or nil pointer dereference")
		}
		errs := (*p).(structure)[0].([]value)
		var out value = ""
		for k, e := range errs {
			if k > 0 {
				out = strConcat(out, "\n")
			}
			out = strConcat(out, fr.i.errorValue(fr, e.(iface)))
		}
		return out
	}
}

// strings.Replacer: host object for concrete inputs; its argument pairs are
// remembered so that Replace can be run on symbolic strings (same semantics:
// left to right, no overlaps, pairs tried in argument order).
var replacerPairs sync.Map // *strings.Replacer -> []string

func init() {
	intrinsics["strings.NewReplacer"] = func(fr *frame, fn *ssa.Function, a []value) value {
		args := a[0].([]value)
		pairs := make([]string, len(args))
		for k, x := range args {
			s, ok := x.(string)
			if !ok {
				panic(unsupported("strings.NewReplacer with symbolic arguments"))
			}
			pairs[k] = s
		}
		if len(pairs)%2 == 1 {
			fr.rtPanic("strings.NewReplacer: odd argument count")
		}
		r := strings.NewReplacer(pairs...)
		replacerPairs.Store(r, pairs)
		return native{r}
	}
	intrinsics["(*strings.Replacer).Replace"] = func(fr *frame, fn *ssa.Function, a []value) value {
		n, ok := a[0].(native)
		if !ok {
			panic(declined{})
		}
		if _, isSym := a[1].(*sstr); !isSym {
			panic(declined{})
		}
		pv, ok := replacerPairs.Load(n.x)
		if !ok {
			panic(unsupported("Replace on a strings.Replacer not created through the engine"))
		}
		pairs := pv.([]string)
		for k := 0; k < len(pairs); k += 2 {
			if pairs[k] == "" {
				panic(unsupported("strings.Replacer with an empty old string on symbolic input"))
			}
		}
		s := a[1]
		f := fr.f()
		var out []value
		for i := 0; i < strLen(s); {
			matched := false
			for k := 0; k < len(pairs); k += 2 {
				old := pairs[k]
				if i+len(old) > strLen(s) {
					continue
				}
				if fr.i.p.Branch(strEqTerm(f, strSlice(s, i, i+len(old)), old)) {
					out = append(out, strBytes(pairs[k+1])...)
					i += len(old)
					matched = true
					break
				}
			}
			if !matched {
				out = append(out, strAt(s, i))
				i++
			}
		}
		return mkStr(out)
	}
}
