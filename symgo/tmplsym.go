package main

// text/template support: templates are parsed by the real package (host
// values); FuncMaps holding interpreted functions are remembered on the side
// and used by the engine's template evaluator (tmpleval.go).

import (
	"reflect"
	"sync"
	"text/template"

	"golang.org/x/tools/go/ssa"
)

// tmplFuncs remembers, per host template, the interpreted FuncMap entries.
type tmplInfo struct {
	funcs map[string]value
}

func init() {
	nativeFuncs["text/template.New"] = reflect.ValueOf(template.New)
	nativeFuncs["text/template.Must"] = reflect.ValueOf(template.Must)
	intrinsics["(*text/template.Template).Funcs"] = func(fr *frame, fn *ssa.Function, a []value) value {
		n, ok := a[0].(native)
		if !ok {
			panic(declined{})
		}
		t := n.x.(*template.Template)
		m, ok := a[1].(*omap)
		if !ok {
			panic(declined{})
		}
		fm := template.FuncMap{}
		info := fr.i.tmplInfoOf(t)
		for k, key := range m.keys {
			name := key.(string)
			fm[name] = func(args ...any) (any, error) { panic("symgo: host execution of interpreted template func") }
			info.funcs[name] = m.vals[k]
		}
		t.Funcs(fm)
		return n
	}
}

var tmplMu sync.Mutex

var tmplInfos = map[*template.Template]*tmplInfo{}

func (i *Interp) tmplInfoOf(t *template.Template) *tmplInfo {
	tmplMu.Lock()
	defer tmplMu.Unlock()
	ti := tmplInfos[t]
	if ti == nil {
		ti = &tmplInfo{funcs: map[string]value{}}
		tmplInfos[t] = ti
	}
	return ti
}
