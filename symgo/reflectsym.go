package main

// A small model of package reflect: the subset Atlas uses on schema graphs
// (TypeOf comparisons, ValueOf(...).Len/Index/Kind/IsNil/Elem/Type/Set).

import (
	"fmt"
	"go/types"
	"reflect"

	"golang.org/x/tools/go/ssa"
)

var rtypeHost = &hostType{rt: reflect.TypeOf(rtype{})}

// rvalue models reflect.Value.
type rvalue struct {
	t    types.Type
	v    value
	addr *value // non-nil when settable
}

func mkRType(t types.Type) value {
	if t == nil {
		return iface{}
	}
	return iface{t: rtypeHost, v: rtype{t}}
}

func kindOf(t types.Type) reflect.Kind {
	switch u := t.Underlying().(type) {
	case *types.Basic:
		switch u.Kind() {
		case types.Bool:
			return reflect.Bool
		case types.Int:
			return reflect.Int
		case types.Int8:
			return reflect.Int8
		case types.Int16:
			return reflect.Int16
		case types.Int32:
			return reflect.Int32
		case types.Int64:
			return reflect.Int64
		case types.Uint:
			return reflect.Uint
		case types.Uint8:
			return reflect.Uint8
		case types.Uint16:
			return reflect.Uint16
		case types.Uint32:
			return reflect.Uint32
		case types.Uint64:
			return reflect.Uint64
		case types.Uintptr:
			return reflect.Uintptr
		case types.Float32:
			return reflect.Float32
		case types.Float64:
			return reflect.Float64
		case types.String:
			return reflect.String
		}
	case *types.Pointer:
		return reflect.Ptr
	case *types.Slice:
		return reflect.Slice
	case *types.Array:
		return reflect.Array
	case *types.Map:
		return reflect.Map
	case *types.Struct:
		return reflect.Struct
	case *types.Interface:
		return reflect.Interface
	case *types.Signature:
		return reflect.Func
	case *types.Chan:
		return reflect.Chan
	}
	return reflect.Invalid
}

func rtypeString(t types.Type) string {
	return types.TypeString(t, func(p *types.Package) string { return p.Name() })
}

// callRTypeMethod implements methods of reflect.Type on the model.
func callRTypeMethod(fr *frame, rt rtype, name string, args []value) value {
	switch name {
	case "String":
		return rtypeString(rt.t)
	case "Name":
		if n, ok := rt.t.(*types.Named); ok {
			return n.Obj().Name()
		}
		if b, ok := rt.t.(*types.Basic); ok {
			return b.Name()
		}
		return ""
	case "Comparable":
		return types.Comparable(rt.t)
	case "Kind":
		return uint(kindOf(rt.t))
	case "Elem":
		switch u := rt.t.Underlying().(type) {
		case *types.Pointer:
			return mkRType(u.Elem())
		case *types.Slice:
			return mkRType(u.Elem())
		case *types.Array:
			return mkRType(u.Elem())
		case *types.Map:
			return mkRType(u.Elem())
		}
		fr.rtPanic("reflect: Elem of invalid type %s", rt.t)
	case "AssignableTo":
		o := args[0].(iface).v.(rtype)
		return types.AssignableTo(rt.t, o.t)
	case "Implements":
		o := args[0].(iface).v.(rtype)
		it, ok := o.t.Underlying().(*types.Interface)
		if !ok {
			fr.rtPanic("reflect: non-interface type passed to Type.Implements")
		}
		return types.Implements(rt.t, it)
	case "NumField":
		st, ok := rt.t.Underlying().(*types.Struct)
		if !ok {
			fr.rtPanic("reflect: NumField of non-struct type %s", rt.t)
		}
		return st.NumFields()
	case "Field":
		st, ok := rt.t.Underlying().(*types.Struct)
		if !ok {
			fr.rtPanic("reflect: Field of non-struct type %s", rt.t)
		}
		k := int(asInt64(args[0]))
		if k < 0 || k >= st.NumFields() {
			fr.rtPanic("reflect: Field index out of bounds")
		}
		return mkStructField(st, k)
	case "FieldByName":
		st, ok := rt.t.Underlying().(*types.Struct)
		if !ok {
			fr.rtPanic("reflect: FieldByName of non-struct type %s", rt.t)
		}
		name, isStr := args[0].(string)
		if !isStr {
			panic(unsupported("reflect.Type.FieldByName with a symbolic name"))
		}
		for k := 0; k < st.NumFields(); k++ {
			if st.Field(k).Name() == name {
				return tuple{mkStructField(st, k), true}
			}
		}
		return tuple{mkStructField(nil, 0), false}
	case "Key":
		if m, ok := rt.t.Underlying().(*types.Map); ok {
			return mkRType(m.Key())
		}
		fr.rtPanic("reflect: Key of non-map type %s", rt.t)
	case "Len":
		if a, ok := rt.t.Underlying().(*types.Array); ok {
			return int(a.Len())
		}
		fr.rtPanic("reflect: Len of non-array type %s", rt.t)
	case "PkgPath":
		if n, ok := rt.t.(*types.Named); ok && n.Obj().Pkg() != nil {
			return n.Obj().Pkg().Path()
		}
		return ""
	case "ConvertibleTo":
		o := args[0].(iface).v.(rtype)
		return types.ConvertibleTo(rt.t, o.t)
	case "NumMethod":
		return types.NewMethodSet(rt.t).Len()
	case "Bits":
		switch kindOf(rt.t) {
		case reflect.Int8, reflect.Uint8:
			return 8
		case reflect.Int16, reflect.Uint16:
			return 16
		case reflect.Int32, reflect.Uint32, reflect.Float32:
			return 32
		case reflect.Int, reflect.Uint, reflect.Int64, reflect.Uint64, reflect.Uintptr, reflect.Float64, reflect.Complex64:
			return 64
		case reflect.Complex128:
			return 128
		}
		fr.rtPanic("reflect: Bits of non-arithmetic Type %s", rt.t)
	}
	panic(unsupported("reflect.Type method %s", name))
}

// mkStructField builds a reflect.StructField value (field order of the struct
// in package reflect: Name, PkgPath, Type, Tag, Offset, Index, Anonymous).
func mkStructField(st *types.Struct, k int) value {
	if st == nil {
		return structure{"", "", iface{}, "", uintptr(0), []value(nil), false}
	}
	f := st.Field(k)
	pkgPath := ""
	if !f.Exported() && f.Pkg() != nil {
		pkgPath = f.Pkg().Path()
	}
	return structure{f.Name(), pkgPath, mkRType(f.Type()), st.Tag(k), uintptr(0), []value{k}, f.Embedded()}
}

type rtypeMethod struct {
	rt   rtype
	name string
}

func rv(a value) rvalue {
	r, ok := a.(rvalue)
	if !ok {
		panic(unsupported("reflect.Value receiver of dynamic type %T", a))
	}
	if r.addr != nil && r.t != nil {
		// an addressable Value reads through to the variable (it may have been Set since)
		r.v = load(r.t, r.addr)
	}
	return r
}

func init() {
	intrinsics["reflect.TypeOf"] = func(fr *frame, fn *ssa.Function, a []value) value {
		return mkRType(a[0].(iface).t)
	}
	intrinsics["reflect.ValueOf"] = func(fr *frame, fn *ssa.Function, a []value) value {
		it := a[0].(iface)
		if it.t == nil {
			return rvalue{}
		}
		return rvalue{t: it.t, v: it.v}
	}
	intrinsics["(reflect.Value).IsValid"] = func(fr *frame, fn *ssa.Function, a []value) value {
		return rv(a[0]).t != nil
	}
	intrinsics["(reflect.Value).Type"] = func(fr *frame, fn *ssa.Function, a []value) value {
		r := rv(a[0])
		if r.t == nil {
			fr.rtPanic("reflect: call of reflect.Value.Type on zero Value")
		}
		return mkRType(r.t)
	}
	intrinsics["(reflect.Value).Kind"] = func(fr *frame, fn *ssa.Function, a []value) value {
		r := rv(a[0])
		if r.t == nil {
			return uint(reflect.Invalid)
		}
		return uint(kindOf(r.t))
	}
	intrinsics["(reflect.Value).Len"] = func(fr *frame, fn *ssa.Function, a []value) value {
		r := rv(a[0])
		switch x := r.v.(type) {
		case []value:
			return len(x)
		case array:
			return len(x)
		case string:
			return len(x)
		case *sstr:
			return len(x.b)
		case *omap:
			return x.len()
		}
		fr.rtPanic("reflect: call of reflect.Value.Len on %s Value", kindOf(r.t))
		return nil
	}
	intrinsics["(reflect.Value).Index"] = func(fr *frame, fn *ssa.Function, a []value) value {
		r := rv(a[0])
		i := int(asInt64(a[1]))
		switch u := r.t.Underlying().(type) {
		case *types.Slice:
			s := r.v.([]value)
			if i < 0 || i >= len(s) {
				fr.rtPanic("reflect: slice index out of range")
			}
			return rvalue{t: u.Elem(), v: s[i], addr: &s[i]}
		case *types.Array:
			s := r.v.(array)
			if i < 0 || i >= len(s) {
				fr.rtPanic("reflect: array index out of range")
			}
			return rvalue{t: u.Elem(), v: s[i]}
		}
		panic(unsupported("reflect.Value.Index on %s", r.t))
	}
	intrinsics["(reflect.Value).IsNil"] = func(fr *frame, fn *ssa.Function, a []value) value {
		r := rv(a[0])
		switch x := r.v.(type) {
		case iface:
			return x.t == nil
		case *value:
			return x == nil
		case []value:
			return x == nil
		case *omap:
			return x == nil
		case *ssa.Function:
			return x == nil
		case *closure:
			return x == nil
		case native:
			return false
		}
		fr.rtPanic("reflect: call of reflect.Value.IsNil on %s Value", kindOf(r.t))
		return nil
	}
	intrinsics["(reflect.Value).Elem"] = func(fr *frame, fn *ssa.Function, a []value) value {
		r := rv(a[0])
		switch u := r.t.Underlying().(type) {
		case *types.Interface:
			it := r.v.(iface)
			if it.t == nil {
				return rvalue{}
			}
			return rvalue{t: it.t, v: it.v}
		case *types.Pointer:
			p, ok := r.v.(*value)
			if !ok {
				panic(unsupported("reflect.Value.Elem on host pointer"))
			}
			if p == nil {
				return rvalue{}
			}
			return rvalue{t: u.Elem(), v: load(u.Elem(), p), addr: p}
		}
		fr.rtPanic("reflect: call of reflect.Value.Elem on %s Value", kindOf(r.t))
		return nil
	}
	intrinsics["(reflect.Value).Set"] = func(fr *frame, fn *ssa.Function, a []value) value {
		r, x := rv(a[0]), rv(a[1])
		if r.addr == nil {
			fr.rtPanic("reflect: reflect.Value.Set using unaddressable value")
		}
		if !types.AssignableTo(x.t, r.t) {
			fr.rtPanic("reflect.Set: value of type %s is not assignable to type %s", x.t, r.t)
		}
		v := x.v
		if _, isI := r.t.Underlying().(*types.Interface); isI {
			if _, already := v.(iface); !already {
				v = iface{t: x.t, v: v}
			}
		}
		store(r.t, r.addr, copyVal(v))
		return nil
	}
	intrinsics["(reflect.Value).Interface"] = func(fr *frame, fn *ssa.Function, a []value) value {
		r := rv(a[0])
		if it, ok := r.v.(iface); ok {
			return it
		}
		return iface{t: r.t, v: r.v}
	}
	intrinsics["(reflect.Value).String"] = func(fr *frame, fn *ssa.Function, a []value) value {
		r := rv(a[0])
		if isStr(r.v) {
			return r.v
		}
		return fmt.Sprintf("<%s Value>", rtypeString(r.t))
	}
	intrinsics["(reflect.Value).Bool"] = func(fr *frame, fn *ssa.Function, a []value) value { return rv(a[0]).v }
	intrinsics["(reflect.Value).Int"] = func(fr *frame, fn *ssa.Function, a []value) value {
		return fr.conv(types.Typ[types.Int64], rv(a[0]).t, rv(a[0]).v)
	}
	fieldOf := func(fr *frame, r rvalue, idx int) rvalue {
		st, ok := r.t.Underlying().(*types.Struct)
		if !ok {
			fr.rtPanic("reflect: call of reflect.Value.Field on %s Value", kindOf(r.t))
		}
		sv, ok := r.v.(structure)
		if !ok {
			panic(unsupported("reflect.Value.Field on %T", r.v))
		}
		if idx < 0 || idx >= len(sv) {
			fr.rtPanic("reflect: Field index out of range")
		}
		out := rvalue{t: st.Field(idx).Type(), v: sv[idx]}
		if r.addr != nil {
			if cur, ok := (*r.addr).(structure); ok {
				out.addr = &cur[idx]
			}
		}
		return out
	}
	intrinsics["(reflect.Value).NumField"] = func(fr *frame, fn *ssa.Function, a []value) value {
		r := rv(a[0])
		st, ok := r.t.Underlying().(*types.Struct)
		if !ok {
			fr.rtPanic("reflect: call of reflect.Value.NumField on %s Value", kindOf(r.t))
		}
		return st.NumFields()
	}
	intrinsics["(reflect.Value).Field"] = func(fr *frame, fn *ssa.Function, a []value) value {
		return fieldOf(fr, rv(a[0]), int(asInt64(a[1])))
	}
	intrinsics["(reflect.Value).FieldByName"] = func(fr *frame, fn *ssa.Function, a []value) value {
		r := rv(a[0])
		name, ok := a[1].(string)
		if !ok {
			panic(unsupported("reflect.Value.FieldByName with a symbolic name"))
		}
		st, isStruct := r.t.Underlying().(*types.Struct)
		if !isStruct {
			fr.rtPanic("reflect: call of reflect.Value.FieldByName on %s Value", kindOf(r.t))
		}
		// direct fields first, then one level of embedded structs (breadth first as in reflect)
		for k := 0; k < st.NumFields(); k++ {
			if st.Field(k).Name() == name {
				return fieldOf(fr, r, k)
			}
		}
		for k := 0; k < st.NumFields(); k++ {
			f := st.Field(k)
			if !f.Embedded() {
				continue
			}
			ft := f.Type()
			if _, isPtr := ft.Underlying().(*types.Pointer); isPtr {
				continue // would need a dereference; not used by the code under test
			}
			if est, ok := ft.Underlying().(*types.Struct); ok {
				for j := 0; j < est.NumFields(); j++ {
					if est.Field(j).Name() == name {
						return fieldOf(fr, fieldOf(fr, r, k), j)
					}
				}
			}
		}
		return rvalue{}
	}
	intrinsics["reflect.Indirect"] = func(fr *frame, fn *ssa.Function, a []value) value {
		r := rv(a[0])
		if r.t == nil {
			return r
		}
		u, ok := r.t.Underlying().(*types.Pointer)
		if !ok {
			return r
		}
		p, ok := r.v.(*value)
		if !ok {
			panic(unsupported("reflect.Indirect on host pointer"))
		}
		if p == nil {
			return rvalue{}
		}
		return rvalue{t: u.Elem(), v: load(u.Elem(), p), addr: p}
	}
	intrinsics["(reflect.Value).Uint"] = func(fr *frame, fn *ssa.Function, a []value) value {
		return fr.conv(types.Typ[types.Uint64], rv(a[0]).t, rv(a[0]).v)
	}
	intrinsics["(reflect.Value).Float"] = func(fr *frame, fn *ssa.Function, a []value) value {
		return fr.conv(types.Typ[types.Float64], rv(a[0]).t, rv(a[0]).v)
	}
	setter := func(name string, basic types.BasicKind) {
		intrinsics["(reflect.Value).Set"+name] = func(fr *frame, fn *ssa.Function, a []value) value {
			r := rv(a[0])
			if r.addr == nil {
				fr.rtPanic("reflect: reflect.Value.Set%s using unaddressable value", name)
			}
			store(r.t, r.addr, fr.conv(r.t, types.Typ[basic], a[1]))
			return nil
		}
	}
	setter("Int", types.Int64)
	setter("Uint", types.Uint64)
	setter("Float", types.Float64)
	setter("Bool", types.Bool)
	setter("String", types.String)
	intrinsics["(reflect.Value).CanSet"] = func(fr *frame, fn *ssa.Function, a []value) value { return rv(a[0]).addr != nil }
	intrinsics["(reflect.Value).CanAddr"] = func(fr *frame, fn *ssa.Function, a []value) value { return rv(a[0]).addr != nil }
	intrinsics["(reflect.Value).CanInterface"] = func(fr *frame, fn *ssa.Function, a []value) value { return rv(a[0]).t != nil }
	rtOf := func(v value) types.Type {
		it, ok := v.(iface)
		if !ok || it.t == nil {
			panic(unsupported("nil reflect.Type"))
		}
		rt, ok := it.v.(rtype)
		if !ok {
			panic(unsupported("host reflect.Type %T", it.v))
		}
		return rt.t
	}
	intrinsics["reflect.MakeSlice"] = func(fr *frame, fn *ssa.Function, a []value) value {
		t := rtOf(a[0])
		st, ok := t.Underlying().(*types.Slice)
		if !ok {
			fr.rtPanic("reflect.MakeSlice of non-slice type")
		}
		n, c := int(asInt64(a[1])), int(asInt64(a[2]))
		if n < 0 || c < n {
			fr.rtPanic("reflect.MakeSlice: bad len/cap")
		}
		s := make([]value, n, c)
		for k := range s {
			s[k] = zero(st.Elem())
		}
		return rvalue{t: t, v: s}
	}
	intrinsics["reflect.Zero"] = func(fr *frame, fn *ssa.Function, a []value) value {
		t := rtOf(a[0])
		return rvalue{t: t, v: zero(t)}
	}
	intrinsics["reflect.New"] = func(fr *frame, fn *ssa.Function, a []value) value {
		t := rtOf(a[0])
		p := new(value)
		*p = zero(t)
		return rvalue{t: types.NewPointer(t), v: p}
	}
	intrinsics["reflect.SliceOf"] = func(fr *frame, fn *ssa.Function, a []value) value {
		return mkRType(types.NewSlice(rtOf(a[0])))
	}
	intrinsics["reflect.PointerTo"] = func(fr *frame, fn *ssa.Function, a []value) value {
		return mkRType(types.NewPointer(rtOf(a[0])))
	}
	intrinsics["reflect.PtrTo"] = intrinsics["reflect.PointerTo"]
	intrinsics["reflect.Append"] = func(fr *frame, fn *ssa.Function, a []value) value {
		r := rv(a[0])
		st, ok := r.t.Underlying().(*types.Slice)
		if !ok {
			fr.rtPanic("reflect.Append: not a slice")
		}
		cur, _ := r.v.([]value)
		out := append([]value(nil), cur...)
		for _, x := range a[1].([]value) {
			xr := rv(x)
			v := xr.v
			if _, isI := st.Elem().Underlying().(*types.Interface); isI {
				if _, already := v.(iface); !already {
					v = iface{t: xr.t, v: v}
				}
			}
			out = append(out, copyVal(v))
		}
		return rvalue{t: r.t, v: out}
	}
	intrinsics["(reflect.Value).Addr"] = func(fr *frame, fn *ssa.Function, a []value) value {
		r := rv(a[0])
		if r.addr == nil {
			fr.rtPanic("reflect.Value.Addr of unaddressable value")
		}
		return rvalue{t: types.NewPointer(r.t), v: r.addr}
	}
	intrinsics["(reflect.Value).IsZero"] = func(fr *frame, fn *ssa.Function, a []value) value {
		r := rv(a[0])
		if r.t == nil {
			fr.rtPanic("reflect: call of reflect.Value.IsZero on zero Value")
		}
		return fr.decide(fr.eqValue(r.t, r.v, zero(r.t)))
	}
	intrinsics["(reflect.Value).Slice"] = func(fr *frame, fn *ssa.Function, a []value) value {
		r := rv(a[0])
		s, ok := r.v.([]value)
		if !ok {
			panic(unsupported("reflect.Value.Slice on %T", r.v))
		}
		i, j := int(asInt64(a[1])), int(asInt64(a[2]))
		if i < 0 || j < i || j > cap(s) {
			fr.rtPanic("reflect.Value.Slice: slice index out of bounds")
		}
		return rvalue{t: r.t, v: s[i:j]}
	}
	intrinsics["(reflect.Value).Cap"] = func(fr *frame, fn *ssa.Function, a []value) value {
		if s, ok := rv(a[0]).v.([]value); ok {
			return cap(s)
		}
		panic(unsupported("reflect.Value.Cap on %T", rv(a[0]).v))
	}
	intrinsics["(reflect.Value).Convert"] = func(fr *frame, fn *ssa.Function, a []value) value {
		r := rv(a[0])
		t := rtOf(a[1])
		if _, isI := t.Underlying().(*types.Interface); isI {
			if it, ok := r.v.(iface); ok {
				return rvalue{t: t, v: it}
			}
			return rvalue{t: t, v: iface{t: r.t, v: r.v}}
		}
		return rvalue{t: t, v: fr.conv(t, r.t, r.v)}
	}
	intrinsics["(reflect.Value).MapKeys"] = func(fr *frame, fn *ssa.Function, a []value) value {
		r := rv(a[0])
		mt, ok := r.t.Underlying().(*types.Map)
		if !ok {
			fr.rtPanic("reflect.Value.MapKeys of non-map")
		}
		var out []value
		if m, ok := r.v.(*omap); ok && m != nil {
			for _, k := range m.keys {
				out = append(out, rvalue{t: mt.Key(), v: k})
			}
		}
		return out
	}
	intrinsics["(reflect.Value).MapIndex"] = func(fr *frame, fn *ssa.Function, a []value) value {
		r := rv(a[0])
		mt, ok := r.t.Underlying().(*types.Map)
		if !ok {
			fr.rtPanic("reflect.Value.MapIndex of non-map")
		}
		m, _ := r.v.(*omap)
		if m == nil {
			return rvalue{}
		}
		k := m.find(fr, rv(a[1]).v)
		if k < 0 {
			return rvalue{}
		}
		return rvalue{t: mt.Elem(), v: m.vals[k]}
	}
}
