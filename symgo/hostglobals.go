package main

import (
	"encoding/base64"
	"io/fs"
	"os"
)

// hostGlobals: package-level variables of packages whose initialisers are not
// interpreted, provided from the host.
var hostGlobals = map[string]any{
	"os.ErrNotExist":              &os.ErrNotExist,
	"os.ErrExist":                 &os.ErrExist,
	"io/fs.ErrNotExist":           &fs.ErrNotExist,
	"io/fs.ErrExist":              &fs.ErrExist,
	"encoding/base64.StdEncoding": &base64.StdEncoding,
	"encoding/base64.URLEncoding": &base64.URLEncoding,
}

// nativeOnly: functions that cannot be interpreted from source; a call with
// symbolic arguments is unsupported.
var nativeOnly = map[string]bool{
	"regexp.MustCompile":  true,
	"regexp.Compile":      true,
	"strings.NewReplacer": true,
	"net/url.Parse":       true,
}
