#!/usr/bin/env python3
"""Regenerates MANIFEST.json from props.py (claimed checks) and NOT_APPLICABLE below."""
import json, os, sys
sys.path.insert(0, os.path.dirname(os.path.abspath(__file__)))
from props import PROPS, NOT_APPLICABLE

BASELINE = json.load(open("/root/.vp/BASELINE.json"))["cmd"]
checks = []
for pid in sorted(PROPS):
    c = PROPS[pid]
    checks.append({
        "property_id": pid,
        "quick_cmd": f"python3 /verif/check.py {pid} --tier quick",
        "thorough_cmd": f"python3 /verif/check.py {pid} --tier thorough",
        "evidence_file": f"/verif/evidence/{pid}.json",
        "replay_cmd_template": "python3 /verif/check.py --replay {path}",
        "engine": "symgo",
        "level_claimed": {
            "category": "model_checking",
            "text": c["claim"],
            "design_ref": c.get("design_ref", "DESIGN.md section 5, " + pid),
        },
        "level_note": c["note"],
        "technique": c.get("technique", "bounded symbolic execution of the real functions from go/ssa; every branch and assertion decided by z3 (SMT-LIB2, QF_BV), counterexamples replayed natively"),
    })
m = {
    "version": 1,
    "setup_cmd": "cd /verif/symgo && GOFLAGS=-mod=mod GOPROXY=off GOSUMDB=off GOTOOLCHAIN=local go build -o /verif/bin/symgo . && mkdir -p /verif/scratch /verif/evidence",
    "hooks": {
        "guard": "verif",
        "enable": "no source hooks: harness files and the runtime shim are injected into the package under test with go/packages Overlay (engine) and `go test -overlay` (native replay); nothing is written into /repo",
        "baseline_off_cmd": BASELINE,
        "source_commits": [],
        "add_only": True,
    },
    "engines": [{
        "name": "symgo", "path": "/verif/symgo",
        "serves_properties": sorted(PROPS),
        "kind_free_text": "symbolic interpreter over go/ssa (x/tools v0.29.0) written for this task: symbolic bit-vector scalars and bytes, stateless path exploration, z3 -in over a pipe (cross-checked with z3 5.1 and cvc5 in the thorough tier), native replay of every model through go test -overlay",
    }],
    "checks": checks,
    "not_applicable": [{"property_id": k, "reason": v} for k, v in sorted(NOT_APPLICABLE.items()) if k not in PROPS],
    "notes": "All verdicts are bounded: 'holds for every value within the stated bounds' (bounds and what lies outside them are in each evidence file and in DESIGN.md). Exit 2 = inconclusive (budget, unsupported construct, solver unknown or a counterexample that does not replay) and is never reported as success.",
}
json.dump(m, open(os.path.join(os.path.dirname(os.path.abspath(__file__)), "MANIFEST.json"), "w"), indent=1)
print("MANIFEST.json written:", len(checks), "checks,", len(m["not_applicable"]), "not applicable")
