#!/bin/bash
# like run1.sh for the cmd/atlas module
export GOFLAGS=-mod=mod GOPROXY=off
unset GOTOOLCHAIN GOSUMDB
d=$1; pkg=$2; h=$3; shift 3
files=""
for f in /verif/harness/$d/*.go; do case $f in *_test.go) ;; *) files="$files -file $f";; esac; done
/verif/bin/symgo -dir /repo/cmd/atlas -pkg $pkg -harness $h $files "$@" 2>&1 | grep -v '^WARNING'
