package mysql

import (
	"fmt"

	"ariga.io/atlas/sql/schema"
)

// C15 (type slice): FormatType / ParseType fix-point for every MySQL type.

var verifIntTypes = []string{TypeTinyInt, TypeSmallInt, TypeMediumInt, TypeInt, TypeBigInt}
var verifPlainTypes = []string{
	TypeTinyBlob, TypeMediumBlob, TypeBlob, TypeLongBlob, TypeTinyText, TypeMediumText, TypeText, TypeLongText,
	TypeDate, TypeYear, TypeJSON, TypePoint, TypeMultiPoint, TypeLineString, TypeMultiLineString, TypePolygon,
	TypeMultiPolygon, TypeGeometry, TypeGeoCollection, TypeGeometryCollection, TypeUUID, TypeInet4, TypeInet6,
}

// verifType builds a type of the catalogue with symbolic parameters.
func verifType(valLen int) schema.Type {
	switch verifChoice("family", 12) {
	case 0:
		return &BitType{T: TypeBit, Size: verifInt("size", 0, 12)}
	case 1:
		return &schema.BoolType{T: []string{TypeBool, TypeBoolean, TypeTinyInt, "tinyint(1)"}[verifChoice("t", 4)]}
	case 2:
		t := &schema.BinaryType{T: []string{TypeBinary, TypeVarBinary}[verifChoice("t", 2)]}
		if verifBool("hasSize") {
			n := verifInt("size", 0, 12)
			t.Size = &n
		}
		return t
	case 3:
		return &schema.DecimalType{T: []string{TypeDecimal, TypeNumeric}[verifChoice("t", 2)],
			Precision: verifInt("precision", 0, 12), Scale: verifInt("scale", 0, 12), Unsigned: verifBool("unsigned")}
	case 4:
		return &schema.FloatType{T: []string{TypeFloat, TypeDouble, TypeReal}[verifChoice("t", 3)],
			Precision: verifInt("precision", 0, 30), Unsigned: verifBool("unsigned")}
	case 5:
		return &schema.IntegerType{T: verifIntTypes[verifChoice("t", len(verifIntTypes))], Unsigned: verifBool("unsigned")}
	case 6:
		return &schema.StringType{T: []string{TypeChar, TypeVarchar}[verifChoice("t", 2)], Size: verifInt("size", 0, 12)}
	case 7:
		t := &schema.TimeType{T: []string{TypeDateTime, TypeTime, TypeTimestamp}[verifChoice("t", 3)]}
		if verifBool("hasPrecision") {
			p := verifInt("precision", 0, 7)
			t.Precision = &p
		}
		return t
	case 8:
		n := verifChoice("values", 2) + 1
		vs := make([]string, n)
		for i := range vs {
			vs[i] = verifString(fmt.Sprintf("v%d", i), valLen)
		}
		return &schema.EnumType{T: TypeEnum, Values: vs}
	case 9:
		n := verifChoice("values", 2) + 1
		vs := make([]string, n)
		for i := range vs {
			vs[i] = verifString(fmt.Sprintf("v%d", i), valLen)
		}
		return &SetType{Values: vs}
	case 10:
		return &schema.IntegerType{T: verifIntTypes[verifChoice("t", len(verifIntTypes))], Unsigned: true,
			Attrs: []schema.Attr{&DisplayWidth{N: verifInt("width", 2, 12)}, &ZeroFill{A: "zerofill"}}}
	}
	t := verifPlainTypes[verifChoice("t", len(verifPlainTypes))]
	ty, err := ParseType(t)
	verifAssert(err == nil, "catalogue type parses")
	return ty
}

func verifC15(valLen int, mode string) {
	t := verifType(valLen)
	switch t := t.(type) {
	case *schema.EnumType:
		verifPlainVals(t.Values, mode)
	case *SetType:
		verifPlainVals(t.Values, mode)
	}
	s, err := FormatType(t)
	if err != nil {
		verifReach("format-error")
		return // the type is rejected (e.g. precision < scale)
	}
	verifReach("formatted")
	t1, err := ParseType(s)
	verifAssert(err == nil, "a formatted type parses")
	if err != nil {
		return
	}
	verifAssert(verifSem(t1) == verifSem(t), "the parsed type means the same as the original (family, storage class, size, precision, scale, sign, values)")
	_, unsupported := t1.(*schema.UnsupportedType)
	verifAssert(!unsupported, "a formatted type parses to a supported type")
	s1, err := FormatType(t1)
	verifAssert(err == nil, "the parsed type formats")
	verifObserve("fmt", s)
	verifAssert(s1 == s, "format(parse(format(t))) == format(t)")
	t2, err := ParseType(s1)
	verifAssert(err == nil, "second parse")
	s2, _ := FormatType(t2)
	verifAssert(s2 == s1, "format/parse is idempotent")
}

// verifSem is an independent semantic projection of a MySQL type (what the
// server would store), used to compare a type with its format/parse image.
func verifSem(t schema.Type) string {
	switch t := t.(type) {
	case *BitType:
		n := t.Size
		if n == 0 {
			n = 1 // BIT == BIT(1)
		}
		return fmt.Sprintf("bit/%d", n)
	case *schema.BoolType:
		return "bool"
	case *schema.BinaryType:
		n := -1
		if t.Size != nil {
			n = *t.Size
		}
		if t.T == TypeBinary && n == -1 {
			n = 1 // BINARY == BINARY(1)
		}
		return fmt.Sprintf("%s/%d", t.T, n)
	case *schema.DecimalType:
		p, sc := t.Precision, t.Scale
		if p == 0 && sc == 0 {
			p = 10 // DECIMAL == DECIMAL(10,0)
		}
		return fmt.Sprintf("decimal/%d/%d/%v", p, sc, t.Unsigned)
	case *schema.FloatType:
		cls := "single"
		if t.T == TypeDouble || t.T == TypeReal || t.T == TypeFloat && t.Precision > 24 {
			cls = "double"
		}
		return fmt.Sprintf("float/%s/%v", cls, t.Unsigned)
	case *schema.IntegerType:
		// Display width and ZEROFILL are deliberately not part of the formatted
		// type (dropped from MySQL 8.0.19's information schema, ignored by the differ).
		return fmt.Sprintf("int/%s/%v", t.T, t.Unsigned)
	case *schema.StringType:
		n := t.Size
		if t.T == TypeChar && n == 0 {
			n = 1 // CHAR == CHAR(1)
		}
		return fmt.Sprintf("%s/%d", t.T, n)
	case *schema.TimeType:
		p := 0
		if t.Precision != nil {
			p = *t.Precision
		}
		return fmt.Sprintf("%s/%d", t.T, p)
	case *schema.EnumType:
		return "enum/" + fmt.Sprint(len(t.Values)) + "/" + verifJoin(t.Values)
	case *SetType:
		return "set/" + fmt.Sprint(len(t.Values)) + "/" + verifJoin(t.Values)
	case *schema.JSONType:
		return "json"
	case *schema.SpatialType:
		return "spatial/" + t.T
	case *schema.UUIDType:
		return "uuid"
	case *NetworkType:
		return "net/" + t.T
	}
	return "other"
}

func verifJoin(vs []string) string {
	s := ""
	for _, v := range vs {
		s += "[" + v + "]"
	}
	return s
}

// verifPlainVals: region of the listed finding C15-mysql-enum-quoting = enum /
// set values containing a quote, comma or backslash. The main run excludes it
// (only while the finding is listed), the witness run requires it.
func verifPlainVals(vs []string, mode string) {
	special := false
	for _, v := range vs {
		for i := 0; i < len(v); i++ {
			c := v[i]
			special = verifOr(special, c == '\'' || c == '"' || c == ',' || c == '\\')
		}
	}
	switch mode {
	case "main":
		if verifKnown("C15-mysql-enum-quoting") {
			verifAssume(!special)
		}
	case "witness":
		verifAssume(special)
	}
}

func VerifHarness_C15_mysql()         { verifC15(1, "main") }
func VerifHarness_C15_mysql2()        { verifC15(2, "main") }
func VerifHarness_C15_mysql_witness() { verifC15(1, "witness") }
