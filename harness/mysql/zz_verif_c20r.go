package mysql

import (
	"context"

	"ariga.io/atlas/sql/schema"
)

// C20 (planning twice): planning does not consume or reorder its input. The
// same change objects planned a second time give byte-identical statements,
// and the caller's change lists still hold the same elements in the same order.
func VerifHarness_C20_mysql_replan() {
	sch := schema.New("s")
	t := schema.NewTable("t").SetSchema(sch)
	id, c, d := schema.NewIntColumn("id", "int"), schema.NewIntColumn("c", "int"), schema.NewIntColumn("d", "int")
	f := schema.NewIntColumn("f", "int")
	t.AddColumns(id, d, f).SetPrimaryKey(schema.NewPrimaryKey(id))
	idxC := schema.NewIndex("idx_c").AddColumns(c)
	idxD := schema.NewIndex("idx_d").AddColumns(d)
	t.AddIndexes(idxD)
	sub := []schema.Change{&schema.DropColumn{C: c}, &schema.DropIndex{I: idxC}, &schema.AddIndex{I: idxD}, &schema.AddColumn{C: f}}
	perm := [][]int{{0, 1, 2, 3}, {1, 0, 2, 3}, {3, 2, 1, 0}, {2, 1, 3, 0}, {1, 2, 3, 0}}[verifChoice("order", 5)]
	// a column modification that touches type and comment at once (planners split it into statements)
	dTo := schema.NewIntColumn("d", "bigint").SetComment("new")
	modCol := &schema.ModifyColumn{From: schema.NewIntColumn("d", "int").SetComment("old"), To: dTo, Change: schema.ChangeType | schema.ChangeComment}
	var changes []schema.Change
	modFirst := verifChoice("modcol-first", 2) == 1
	if modFirst {
		changes = append(changes, modCol)
	}
	for _, k := range perm {
		changes = append(changes, sub[k])
	}
	if !modFirst {
		changes = append(changes, modCol)
	}
	t2 := schema.NewTable("t2").SetSchema(sch).AddColumns(schema.NewIntColumn("id", "int"))
	t3 := schema.NewTable("t3").SetSchema(sch).AddColumns(schema.NewIntColumn("id", "int"))
	mod := &schema.ModifyTable{T: t, Changes: changes}
	top := []schema.Change{mod, &schema.AddTable{T: t2}, &schema.DropTable{T: t3}}
	before := append([]schema.Change(nil), mod.Changes...)
	topBefore := append([]schema.Change(nil), top...)
	ctx := context.Background()
	p1, err := DefaultPlan.PlanChanges(ctx, "p", top)
	verifAssert(err == nil, "first plan")
	if err != nil {
		return
	}
	a, _ := verifPlanText(p1)
	p2, err := DefaultPlan.PlanChanges(ctx, "p", top)
	verifAssert(err == nil, "second plan of the same changes")
	if err != nil {
		return
	}
	b, _ := verifPlanText(p2)
	verifReach("compared")
	verifObserve("plan", a)
	verifAssert(a == b, "planning the same changes twice gives the same statements")
	verifAssert(modCol.Change == schema.ChangeType|schema.ChangeComment, "planning leaves the kind of a column modification as the caller gave it")
	verifAssert(len(mod.Changes) == len(before) && len(top) == len(topBefore), "planning does not shrink or grow the caller's change lists")
	for k := range before {
		if k < len(mod.Changes) {
			verifAssert(mod.Changes[k] == before[k], "planning leaves the caller's sub-changes in place")
		}
	}
	for k := range topBefore {
		verifAssert(top[k] == topBefore[k], "planning leaves the caller's changes in place")
	}
}
