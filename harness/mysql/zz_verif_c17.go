package mysql

import (
	"context"
	"strings"

	"ariga.io/atlas/sql/migrate"
	"ariga.io/atlas/sql/schema"
)

// C17 (planner half): for planner-produced plans the reversible flag agrees
// with the per-change reverse statements, and every reverse statement is the
// structural inverse of its forward statement.

func verifCount(s, sub string) int { return strings.Count(s, sub) }

func VerifHarness_C17_mysql() {
	sch := schema.New("main")
	set := verifChoice("set", 8)
	verifC17Plan(verifChangeSet(set, sch, schema.New("other")))
}

// Sequence family: one ModifyTable whose sub-changes are an ordered pair drawn from a catalogue of
// nine (reversible and irreversible ones in either order): the flag of the whole ALTER TABLE group
// must not depend on which sub-change comes last.
func VerifHarness_C17_mysql_seq() {
	sch := schema.New("main")
	t0 := schema.NewTable("t0").SetSchema(sch)
	id := schema.NewIntColumn("id", "int")
	c1 := schema.NewStringColumn("c1", "varchar", schema.StringSize(10))
	r := schema.NewIntColumn("r", "int")
	t0.AddColumns(id, c1, r).SetPrimaryKey(schema.NewPrimaryKey(id))
	t0.AddIndexes(schema.NewIndex("i0").AddColumns(c1))
	k0 := schema.NewCheck().SetName("k0").SetExpr("id > 0")
	t0.AddChecks(k0)
	t1 := schema.NewTable("t1").SetSchema(sch).AddColumns(schema.NewIntColumn("id", "int"))
	t1.SetPrimaryKey(schema.NewPrimaryKey(t1.Columns[0]))
	fk := schema.NewForeignKey("f0").SetTable(t0).AddColumns(r).SetRefTable(t1).AddRefColumns(t1.Columns[0])
	cat := func(i int) schema.Change {
		switch i {
		case 0:
			return &schema.AddColumn{C: schema.NewIntColumn("c2", "int")}
		case 1:
			return &schema.DropColumn{C: r}
		case 2:
			return &schema.AddCheck{C: schema.NewCheck().SetExpr("r > 0")}
		case 3:
			return &schema.AddCheck{C: schema.NewCheck().SetName("k1").SetExpr("r > 1")}
		case 4:
			return &schema.DropCheck{C: k0}
		case 5:
			return &schema.AddForeignKey{F: fk}
		case 6:
			return &schema.ModifyColumn{From: c1, To: schema.NewStringColumn("c1", "varchar", schema.StringSize(20)), Change: schema.ChangeType}
		case 7:
			return &schema.AddIndex{I: schema.NewIndex("i1").AddColumns(id)}
		}
		return &schema.DropIndex{I: t0.Indexes[0]}
	}
	a := verifChoice("first", 9)
	b := verifChoice("second", 8)
	if b >= a {
		b++
	}
	verifC17Plan([]schema.Change{&schema.ModifyTable{T: t0, Changes: []schema.Change{cat(a), cat(b)}}})
}

func verifC17Plan(changes []schema.Change) {
	empty := ""
	p, err := DefaultPlan.PlanChanges(context.Background(), "p", changes, func(o *migrate.PlanOptions) { o.SchemaQualifier = &empty })
	verifAssert(err == nil, "catalogue change set is planned")
	if err != nil {
		return
	}
	all := true
	for _, c := range p.Changes {
		rs, err := c.ReverseStmts()
		verifAssert(err == nil, "reverse statements are well formed")
		if len(rs) == 0 {
			all = false
			continue
		}
		verifReach("reverse")
		fwd, rev := strings.ToUpper(c.Cmd), strings.ToUpper(strings.Join(rs, "\n"))
		switch {
		case strings.HasPrefix(fwd, "CREATE TABLE"):
			verifAssert(len(rs) == 1 && strings.HasPrefix(rev, "DROP TABLE"), "CREATE TABLE is reversed by DROP TABLE")
			verifAssert(verifIdentAfter(c.Cmd, "CREATE TABLE") == verifIdentAfter(rs[0], "DROP TABLE"), "the reverse drops the table that was created")
		case strings.HasPrefix(fwd, "DROP TABLE"):
			verifAssert(strings.HasPrefix(rev, "CREATE TABLE"), "DROP TABLE is reversed by re-creating the table first")
			verifAssert(verifIdentAfter(c.Cmd, "DROP TABLE") == verifIdentAfter(rs[0], "CREATE TABLE"), "the reverse re-creates the table that was dropped")
		case strings.HasPrefix(fwd, "ALTER TABLE"):
			verifAssert(verifCount(fwd, "ADD COLUMN") == verifCount(rev, "DROP COLUMN"), "every added column is dropped by the reverse")
			verifAssert(verifCount(fwd, "DROP COLUMN") == verifCount(rev, "ADD COLUMN"), "every dropped column is re-added by the reverse")
			verifAssert(verifCount(fwd, "ADD CONSTRAINT")+verifCount(fwd, "ADD CHECK") == verifCount(rev, "DROP CONSTRAINT")+verifCount(rev, "DROP FOREIGN KEY")+verifCount(rev, "DROP CHECK"), "every added constraint is dropped by the reverse")
		case strings.HasPrefix(fwd, "CREATE INDEX"), strings.HasPrefix(fwd, "CREATE UNIQUE INDEX"):
			verifAssert(strings.HasPrefix(rev, "DROP INDEX"), "CREATE INDEX is reversed by DROP INDEX")
		case strings.HasPrefix(fwd, "DROP INDEX"):
			verifAssert(strings.HasPrefix(rev, "CREATE"), "DROP INDEX is reversed by re-creating the index")
		}
	}
	// what reverses one change never carries the forward statement of another
	for i, c := range p.Changes {
		rs, _ := c.ReverseStmts()
		for j, o := range p.Changes {
			if i == j || strings.HasPrefix(o.Cmd, "PRAGMA") {
				continue
			}
			for _, r := range rs {
				verifAssert(r != o.Cmd, "a reverse statement is not the forward statement of another change")
			}
		}
	}
	verifAssert(p.Reversible == all, "Reversible iff every planned change has a reverse statement")
	if !all {
		verifReach("irreversible")
	}
}

// Multi family: two top-level changes in either order out of {add table, drop table t1, drop table t0,
// modify table}: what reverses one change never carries a statement of another.
func VerifHarness_C17_mysql_multi() {
	sch := schema.New("main")
	mk := func(name string) *schema.Table {
		t := schema.NewTable(name).SetSchema(sch)
		id := schema.NewIntColumn("id", "int")
		v := schema.NewIntColumn("v", "int")
		t.AddColumns(id, v).SetPrimaryKey(schema.NewPrimaryKey(id))
		t.AddIndexes(schema.NewIndex("i_" + name).AddColumns(v))
		return t
	}
	t0, t1, t2 := mk("t0"), mk("t1"), mk("t2")
	cat := func(i int) schema.Change {
		switch i {
		case 0:
			return &schema.AddTable{T: t2}
		case 1:
			return &schema.DropTable{T: t1}
		case 2:
			return &schema.DropTable{T: t0}
		}
		return &schema.ModifyTable{T: t0, Changes: []schema.Change{&schema.AddColumn{C: schema.NewIntColumn("w", "int")}}}
	}
	a := verifChoice("first", 4)
	b := verifChoice("second", 3)
	if b >= a {
		b++
	}
	if a+b == 5 { // drop t0 and modify t0 do not go together
		return
	}
	verifC17Plan([]schema.Change{cat(a), cat(b)})
}

// verifIdentAfter returns the token following the keyword (the identifier).
func verifIdentAfter(stmt, kw string) string {
	rest := strings.TrimSpace(stmt[len(kw):])
	rest = strings.TrimPrefix(rest, "IF NOT EXISTS ")
	rest = strings.TrimPrefix(rest, "IF EXISTS ")
	if i := strings.IndexAny(rest, " ("); i >= 0 {
		rest = rest[:i]
	}
	return rest
}
