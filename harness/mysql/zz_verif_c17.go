package mysql

import (
	"context"
	"strings"

	"ariga.io/atlas/sql/migrate"
	"ariga.io/atlas/sql/schema"
)

// C17 (planner half): for planner-produced plans the reversible flag agrees
// with the per-change reverse statements, and every reverse statement is the
// structural inverse of its forward statement.

func verifCount(s, sub string) int { return strings.Count(s, sub) }

func VerifHarness_C17_mysql() {
	sch := schema.New("main")
	set := verifChoice("set", 8)
	changes := verifChangeSet(set, sch, schema.New("other"))
	empty := ""
	p, err := DefaultPlan.PlanChanges(context.Background(), "p", changes, func(o *migrate.PlanOptions) { o.SchemaQualifier = &empty })
	verifAssert(err == nil, "catalogue change set is planned")
	if err != nil {
		return
	}
	all := true
	for _, c := range p.Changes {
		rs, err := c.ReverseStmts()
		verifAssert(err == nil, "reverse statements are well formed")
		if len(rs) == 0 {
			all = false
			continue
		}
		verifReach("reverse")
		fwd, rev := strings.ToUpper(c.Cmd), strings.ToUpper(strings.Join(rs, "\n"))
		switch {
		case strings.HasPrefix(fwd, "CREATE TABLE"):
			verifAssert(len(rs) == 1 && strings.HasPrefix(rev, "DROP TABLE"), "CREATE TABLE is reversed by DROP TABLE")
			verifAssert(verifIdentAfter(c.Cmd, "CREATE TABLE") == verifIdentAfter(rs[0], "DROP TABLE"), "the reverse drops the table that was created")
		case strings.HasPrefix(fwd, "DROP TABLE"):
			verifAssert(strings.HasPrefix(rev, "CREATE TABLE"), "DROP TABLE is reversed by re-creating the table first")
			verifAssert(verifIdentAfter(c.Cmd, "DROP TABLE") == verifIdentAfter(rs[0], "CREATE TABLE"), "the reverse re-creates the table that was dropped")
		case strings.HasPrefix(fwd, "ALTER TABLE"):
			verifAssert(verifCount(fwd, "ADD COLUMN") == verifCount(rev, "DROP COLUMN"), "every added column is dropped by the reverse")
			verifAssert(verifCount(fwd, "DROP COLUMN") == verifCount(rev, "ADD COLUMN"), "every dropped column is re-added by the reverse")
			verifAssert(verifCount(fwd, "ADD CONSTRAINT") == verifCount(rev, "DROP CONSTRAINT")+verifCount(rev, "DROP FOREIGN KEY")+verifCount(rev, "DROP CHECK"), "every added constraint is dropped by the reverse")
		case strings.HasPrefix(fwd, "CREATE INDEX"), strings.HasPrefix(fwd, "CREATE UNIQUE INDEX"):
			verifAssert(strings.HasPrefix(rev, "DROP INDEX"), "CREATE INDEX is reversed by DROP INDEX")
		case strings.HasPrefix(fwd, "DROP INDEX"):
			verifAssert(strings.HasPrefix(rev, "CREATE"), "DROP INDEX is reversed by re-creating the index")
		}
	}
	verifAssert(p.Reversible == all, "Reversible iff every planned change has a reverse statement")
	if !all {
		verifReach("irreversible")
	}
}

// verifIdentAfter returns the token following the keyword (the identifier).
func verifIdentAfter(stmt, kw string) string {
	rest := strings.TrimSpace(stmt[len(kw):])
	rest = strings.TrimPrefix(rest, "IF NOT EXISTS ")
	rest = strings.TrimPrefix(rest, "IF EXISTS ")
	if i := strings.IndexAny(rest, " ("); i >= 0 {
		rest = rest[:i]
	}
	return rest
}
