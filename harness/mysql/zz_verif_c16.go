package mysql

import (
	"context"
	"strings"

	"ariga.io/atlas/sql/migrate"
	"ariga.io/atlas/sql/schema"
)

// C16: plans scoped to one schema never mention the schema's name; a custom
// qualifier is used for every table reference. The schema name and the
// qualifier are symbolic strings (markers drawn from letters that no other
// identifier of the change set uses), so "no byte of the name reaches a
// statement" is decided by the solver for every name at once.

func verifMarker(tag string, lo, hi byte) string {
	s := verifString(tag, 2)
	for i := 0; i < len(s); i++ {
		verifAssume(s[i] >= lo && s[i] <= hi)
	}
	return s
}

func verifChangeSet(set int, sch, other *schema.Schema) []schema.Change {
	t0 := schema.NewTable("t0").SetSchema(sch).SetComment("c0")
	id := schema.NewIntColumn("id", "int")
	c1 := schema.NewStringColumn("c1", "varchar", schema.StringSize(10)).SetComment("note")
	r := schema.NewIntColumn("r", "int")
	t0.AddColumns(id, c1, r).SetPrimaryKey(schema.NewPrimaryKey(id))
	t0.AddIndexes(schema.NewIndex("i0").AddColumns(c1))
	t0.AddChecks(schema.NewCheck().SetName("k0").SetExpr("id > 0"))
	t1 := schema.NewTable("t1").SetSchema(sch).AddColumns(schema.NewIntColumn("id", "int"))
	t1.SetPrimaryKey(schema.NewPrimaryKey(t1.Columns[0]))
	fk := schema.NewForeignKey("f0").SetTable(t0).AddColumns(r).SetRefTable(t1).AddRefColumns(t1.Columns[0])
	switch set {
	case 0:
		return []schema.Change{&schema.AddTable{T: t0}}
	case 1:
		t0.AddForeignKeys(fk)
		return []schema.Change{&schema.AddTable{T: t1}, &schema.AddTable{T: t0}}
	case 2:
		return []schema.Change{&schema.DropTable{T: t0}}
	case 3:
		nc := schema.NewIntColumn("c2", "int")
		return []schema.Change{&schema.ModifyTable{T: t0, Changes: []schema.Change{&schema.AddColumn{C: nc}, &schema.DropColumn{C: r}}}}
	case 4:
		ni := schema.NewIndex("i1").AddColumns(id)
		return []schema.Change{&schema.ModifyTable{T: t0, Changes: []schema.Change{&schema.AddIndex{I: ni}, &schema.DropIndex{I: t0.Indexes[0]}}}}
	case 5:
		return []schema.Change{&schema.ModifyTable{T: t0, Changes: []schema.Change{&schema.AddForeignKey{F: fk}}}}
	case 6:
		to := schema.NewStringColumn("c1", "varchar", schema.StringSize(20)).SetComment("other")
		return []schema.Change{&schema.ModifyTable{T: t0, Changes: []schema.Change{&schema.ModifyColumn{From: c1, To: to, Change: schema.ChangeType | schema.ChangeComment}}}}
	case 7:
		t2 := schema.NewTable("t2").SetSchema(sch)
		return []schema.Change{&schema.RenameTable{From: t0, To: t2}}
	case 8:
		return []schema.Change{&schema.AddSchema{S: sch}, &schema.AddTable{T: t0}}
	case 9:
		return []schema.Change{&schema.DropSchema{S: sch}}
	}
	// tables of two schemas
	t3 := schema.NewTable("t3").SetSchema(other).AddColumns(schema.NewIntColumn("id", "int"))
	return []schema.Change{&schema.AddTable{T: t0}, &schema.AddTable{T: t3}}
}

func verifStmts(p *migrate.Plan) []string {
	var out []string
	for _, c := range p.Changes {
		out = append(out, c.Cmd)
		rs, err := c.ReverseStmts()
		verifAssert(err == nil, "reverse statements are well formed")
		out = append(out, rs...)
	}
	return out
}

// verifQualified: every quoted table identifier in stmt is preceded by `q`.
func verifQualified(stmt, q string, open, close byte) bool {
	for _, name := range []string{"t0", "t1", "t2"} {
		ident := string(open) + name + string(close)
		pre := string(open) + q + string(close) + "."
		for i := 0; i+len(ident) <= len(stmt); i++ {
			if stmt[i:i+len(ident)] != ident {
				continue
			}
			if i < len(pre) || stmt[i-len(pre):i] != pre {
				return false
			}
		}
	}
	return true
}

func verifC16(plan func(context.Context, []schema.Change, ...migrate.PlanOption) (*migrate.Plan, error), open, close byte) {
	name := verifMarker("s", 'x', 'z')
	sch := schema.New(name)
	other := schema.New("w" + name)
	if verifChoice("other-schema", 2) == 1 {
		// any other name, also one that differs from the first only by letter case
		o := verifString("o", 2)
		for i := 0; i < len(o); i++ {
			verifAssume(verifOr(verifAnd(o[i] >= 'x', o[i] <= 'z'), verifAnd(o[i] >= 'X', o[i] <= 'Z')))
		}
		verifAssume(o != name)
		other = schema.New(o)
	}
	set := verifChoice("set", 11)
	mode := verifChoice("qualifier", 5)
	changes := verifChangeSet(set, sch, other)
	var opts []migrate.PlanOption
	q := ""
	switch mode {
	case 0:
		empty := ""
		opts = append(opts, func(o *migrate.PlanOptions) { o.SchemaQualifier = &empty })
	case 1:
		q = verifMarker("q", 'u', 'w')
		opts = append(opts, func(o *migrate.PlanOptions) { o.SchemaQualifier = &q })
	case 3: // the qualifier happens to be the name of the schema itself
		q = name
		opts = append(opts, func(o *migrate.PlanOptions) { o.SchemaQualifier = &q })
	case 4: // ... or the name of the second schema of a two-schema change set
		q = other.Name
		opts = append(opts, func(o *migrate.PlanOptions) { o.SchemaQualifier = &q })
	}
	p, err := plan(context.Background(), changes, opts...)
	if mode != 2 && set >= 8 {
		verifReach("rejected")
		verifAssert(err != nil, "schema-level and multi-schema change sets are rejected for a schema-scoped plan")
		return
	}
	verifAssert(err == nil, "a single-schema change set is planned")
	if err != nil {
		return
	}
	verifReach("planned")
	for _, st := range verifStmts(p) {
		switch mode {
		case 0:
			verifAssert(!strings.Contains(st, name), "no planned or reverse statement mentions the schema name")
			verifAssert(!strings.Contains(st, "DATABASE") && !strings.Contains(st, "SCHEMA"), "no statement creates, drops or alters a schema")
		case 1:
			verifAssert(!strings.Contains(st, name), "with a custom qualifier the schema name is not used")
			verifAssert(verifQualified(st, q, open, close), "every table reference uses exactly the requested qualifier")
		case 3, 4:
			verifAssert(verifQualified(st, q, open, close), "every table reference uses exactly the requested qualifier (equal to a schema name)")
		}
	}
}

func verifPlanOpts(ctx context.Context, cs []schema.Change, opts ...migrate.PlanOption) (*migrate.Plan, error) {
	return DefaultPlan.PlanChanges(ctx, "p", cs, opts...)
}

func VerifHarness_C16_mysql() { verifC16(verifPlanOpts, '`', '`') }
