package mysql

import (
	"context"
	"database/sql"
	"errors"
	"strings"

	"ariga.io/atlas/sql/internal/sqlx"
	"ariga.io/atlas/sql/migrate"
	"ariga.io/atlas/sql/schema"
)

// C14 (MySQL, schema-bound dev connection): DevDriver.NormalizeSchema on a dev
// schema that holds tables is refused before a single statement is run, and on an
// empty dev schema it hands the schema back empty and with its own charset and
// collation, whatever the desired schema's attributes are and whichever dev
// operation fails on the way.

var errVerifMyDev = errors.New("verif: injected dev database failure")

// vMyDev models the dev schema: its attributes and the names of its tables.
type vMyDev struct {
	charset, collate string
	tables           []string
	ops, failAt      int
	log              []string
}

func (d *vMyDev) step() bool {
	op := d.ops
	d.ops++
	return op == d.failAt
}

type vMyDevExec struct{ d *vMyDev }

func (e vMyDevExec) ExecContext(_ context.Context, q string, _ ...any) (sql.Result, error) {
	if e.d.step() {
		return nil, errVerifMyDev
	}
	e.d.log = append(e.d.log, q)
	switch {
	case strings.HasPrefix(q, "ALTER DATABASE"):
		f := strings.Fields(q)
		for k := 0; k+1 < len(f); k++ {
			switch f[k] {
			case "CHARSET":
				e.d.charset = f[k+1]
			case "COLLATE":
				e.d.collate = f[k+1]
			}
		}
	case strings.HasPrefix(q, "CREATE TABLE"):
		e.d.tables = append(e.d.tables, verifMyTable(strings.Fields(q)[2]))
	case strings.HasPrefix(q, "DROP TABLE"):
		name := verifMyTable(strings.Fields(q)[2])
		for k, n := range e.d.tables {
			if n == name {
				e.d.tables = append(e.d.tables[:k:k], e.d.tables[k+1:]...)
				break
			}
		}
	}
	return nil, nil
}

func (e vMyDevExec) QueryContext(context.Context, string, ...any) (*sql.Rows, error) {
	return nil, errors.New("verif: queries are answered by the inspector model")
}

// verifMyTable: `t`, `dev`.`t` -> t
func verifMyTable(ident string) string {
	if k := strings.LastIndex(ident, "."); k >= 0 {
		ident = ident[k+1:]
	}
	return strings.Trim(ident, "`")
}

type vMyDevInspect struct {
	schema.Inspector
	d *vMyDev
}

func (i vMyDevInspect) schema() *schema.Schema {
	s := schema.New("dev").SetCharset(i.d.charset).SetCollation(i.d.collate)
	for _, n := range i.d.tables {
		t := schema.NewTable(n).AddColumns(schema.NewIntColumn("id", "int"))
		t.SetCharset(i.d.charset).SetCollation(i.d.collate)
		s.AddTables(t)
	}
	r := schema.NewRealm(s).SetCharset("utf8mb4").SetCollation("utf8mb4_0900_ai_ci")
	_ = r
	return s
}

func (i vMyDevInspect) InspectSchema(context.Context, string, *schema.InspectOptions) (*schema.Schema, error) {
	if i.d.step() {
		return nil, errVerifMyDev
	}
	return i.schema(), nil
}

func (i vMyDevInspect) InspectRealm(context.Context, *schema.InspectRealmOption) (*schema.Realm, error) {
	if i.d.step() {
		return nil, errVerifMyDev
	}
	return i.schema().Realm, nil
}

func verifMyDevDriver(d *vMyDev) *Driver {
	c := &conn{ExecQuerier: vMyDevExec{d}, schema: "dev", V: "8.0.31", charset: "utf8mb4", collate: "utf8mb4_0900_ai_ci"}
	return &Driver{conn: c, Differ: &sqlx.Diff{DiffDriver: &diff{conn: c}}, Inspector: vMyDevInspect{d: d}, PlanApplier: &planApply{c}}
}

func VerifHarness_C14_mysql_normalize() {
	dirty := verifChoice("dev-tables", 2) == 1
	dev := &vMyDev{charset: "latin1", collate: "latin1_swedish_ci", failAt: verifInt("failAt", -1, 12)}
	if dirty {
		dev.tables = []string{"users"}
	}
	desired := schema.New("app")
	switch verifChoice("desired-attrs", 3) {
	case 1:
		desired.SetCharset("utf8mb4").SetCollation("utf8mb4_0900_ai_ci")
	case 2:
		desired.SetCharset("latin1").SetCollation("latin1_swedish_ci")
	}
	t := schema.NewTable("t1").SetSchema(desired).AddColumns(schema.NewIntColumn("id", "int"))
	desired.AddTables(t)
	drv := verifMyDevDriver(dev)
	dd := &sqlx.DevDriver{Driver: drv}
	_, err := dd.NormalizeSchema(context.Background(), desired)
	if dirty {
		verifReach("dirty")
		var nce *migrate.NotCleanError
		verifAssert(errors.As(err, &nce) || errors.Is(err, errVerifMyDev), "a dev schema that holds tables is refused")
		verifAssert(len(dev.log) == 0, "nothing at all is executed on a refused dev schema")
		verifAssert(dev.charset == "latin1" && dev.collate == "latin1_swedish_ci" && len(dev.tables) == 1, "a refused dev schema is left untouched")
		return
	}
	verifReach("clean")
	if err == nil {
		verifReach("normalized")
	}
	if dev.failAt >= 0 && dev.failAt < dev.ops {
		verifReach("fault")
		verifAssert(err != nil, "a failing dev operation is reported")
		return // the restore itself may have been the failing operation
	}
	verifAssert(len(dev.tables) == 0, "the dev schema is handed back without tables")
	verifAssert(dev.charset == "latin1" && dev.collate == "latin1_swedish_ci", "the dev schema is handed back with its own charset and collation")
}
