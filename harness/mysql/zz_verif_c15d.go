package mysql

import (
	"fmt"

	"ariga.io/atlas/sql/schema"
)

// C15 (document level): a schema is written with the real MarshalHCL, the
// bytes are evaluated with the real EvalHCLBytes (hclparse, schemahcl,
// specutil, the dialect's spec converters), and the result is compared with
// the original by the real differ in both directions; marshalling the result
// again must give the same bytes.

var verifStrings = []string{"x", "it's", "a\"b", "back\\slash", "${v}", "%{if}", "two words", "multi\nline", "", " ", " lead", "trail "}

// verifDocSchema builds the schema of one family: part 0 varies the type of
// column c over the catalogue (and its nullability), part 1 the strings that
// travel through HCL quoting (defaults, comments), numeric defaults and
// column/table attributes, part 2 the table-level objects (index, foreign
// key, check).
func verifDocSchema(part int) *schema.Schema {
	s := schema.New("app")
	t1 := schema.NewTable("t1").SetSchema(s)
	t1id := schema.NewIntColumn("id", TypeBigInt)
	t1.AddColumns(t1id).SetPrimaryKey(schema.NewPrimaryKey(t1id))
	t0 := schema.NewTable("t0").SetSchema(s)
	id := schema.NewIntColumn("id", TypeBigInt)
	t0.AddColumns(id).SetPrimaryKey(schema.NewPrimaryKey(id))
	d := schema.NewStringColumn("d", TypeVarchar, schema.StringSize(20))
	n := schema.NewIntColumn("n", TypeBigInt)
	switch part {
	case 0:
		ct := verifType(1)
		switch t := ct.(type) {
		case *schema.EnumType:
			verifPlainVals(t.Values, "main")
			verifASCII(t.Values)
			verifPrintable(t.Values)
		case *SetType:
			verifPlainVals(t.Values, "main")
			verifASCII(t.Values)
			verifPrintable(t.Values)
		case *schema.BinaryType:
			verifAssume(t.T != TypeVarBinary || t.Size != nil)
		}
		raw, err := FormatType(ct)
		if err != nil {
			verifAssume(false)
		}
		ct0, err := ParseType(raw)
		verifAssert(err == nil, "catalogue type parses")
		c := schema.NewColumn("c").SetType(ct0).SetNull(verifBool("null"))
		c.Type.Raw = raw
		t0.AddColumns(c)
	case 1:
		str := verifStrings[verifChoice("str", len(verifStrings))]
		switch verifChoice("where", 12) {
		case 0:
			d.SetDefault(&schema.Literal{V: quote(str)})
		case 1:
			d.SetComment(str)
		case 2:
			t0.SetComment(str)
		case 3:
			d.SetDefault(&schema.RawExpr{X: "(upper('a'))"}).SetNull(true)
		case 4:
			n.SetDefault(&schema.Literal{V: fmt.Sprint(verifInt("numval", 0, 3))})
		case 5:
			n.SetDefault(&schema.Literal{V: "-1"})
		case 6:
			// the column attribute; the table-level counter value is run-time state that
			// MarshalHCL deliberately does not export (see diff.autoIncChange)
			id.AddAttrs(&AutoIncrement{})
		case 7:
			// charset / collation of table and column in every inherit / override combination
			if verifBool("tcharset") {
				t0.SetCharset("utf8mb4").SetCollation("utf8mb4_0900_ai_ci")
			}
			switch verifChoice("ccharset", 4) {
			case 1:
				d.SetCharset("latin1").SetCollation("latin1_bin") // both differ from the table
			case 2:
				d.SetCharset("utf8mb4").SetCollation("utf8mb4_bin") // same charset, other collation
			case 3:
				d.SetCharset("utf8mb4").SetCollation("utf8mb4_0900_ai_ci") // both as the table
			}
		case 8:
			t0.SetCharset("utf8mb4").SetCollation("utf8mb4_bin")
		case 9:
			ts := schema.NewTimeColumn("ts", TypeTimestamp).SetDefault(&schema.RawExpr{X: "CURRENT_TIMESTAMP"})
			ts.AddAttrs(&OnUpdate{A: "CURRENT_TIMESTAMP"})
			t0.AddColumns(ts)
		case 10:
			g := schema.NewIntColumn("g", TypeBigInt).SetGeneratedExpr(&schema.GeneratedExpr{Expr: "(`n` + 1)", Type: []string{"STORED", "VIRTUAL"}[verifChoice("gentype", 2)]})
			t0.AddColumns(g)
		case 11:
			t0.AddAttrs(&Engine{V: []string{"InnoDB", "MyISAM"}[verifChoice("engine", 2)], Default: verifBool("enginedefault")})
		}
	}
	t0.AddColumns(d, n)
	if part == 2 {
		all := verifChoice("objects", 4) // 0 index, 1 foreign key, 2 check, 3 all of them
		if verifDocWitness {
			verifAssume(all == 2)
		}
		if all == 0 || all == 3 {
			idx := schema.NewIndex("i0").SetUnique(all == 3 || verifBool("unique"))
			p0 := &schema.IndexPart{C: d, Desc: all == 3 || verifBool("desc")}
			if all != 3 && verifBool("prefix") {
				p0.AddAttrs(&SubPart{Len: verifInt("prefixlen", 1, 3)})
			}
			idx.AddParts(p0)
			if all != 3 && verifBool("exprpart") {
				idx.AddParts(&schema.IndexPart{SeqNo: 1, X: &schema.RawExpr{X: "(`n` + 1)"}, Desc: verifBool("exprdesc")})
			}
			if all != 3 && verifBool("hash") {
				idx.AddAttrs(&IndexType{T: IndexTypeHash})
			}
			if all == 3 || verifBool("icomment") {
				idx.SetComment("it's")
			}
			t0.AddIndexes(idx)
		}
		if all == 1 || all == 3 {
			fk := schema.NewForeignKey("f0").SetTable(t0).AddColumns(n).SetRefTable(t1).AddRefColumns(t1id)
			fk.SetOnDelete([]schema.ReferenceOption{schema.NoAction, schema.Restrict, schema.Cascade, schema.SetNull, schema.SetDefault}[verifChoice("ondelete", 5)])
			if verifBool("onupdate") {
				fk.SetOnUpdate(schema.Cascade)
			}
			t0.AddForeignKeys(fk)
		}
		if all == 2 || all == 3 {
			ck := schema.NewCheck().SetName("k0").SetExpr([]string{"(`n` > 0)", "(`d` <> _utf8mb4'it\\'s')", "regexp_like(`d`,_utf8mb4'^\\\\d+$')"}[verifChoice("ckexpr", 3)])
			// NOT ENFORCED checks (inspected as Enforced{V: false}) are the listed finding
			// C15-mysql-check-not-enforced: excluded while listed, required by the witness.
			switch {
			case verifDocWitness:
				ck.AddAttrs(&Enforced{V: false})
			case verifKnown("C15-mysql-check-not-enforced"):
				if verifBool("enforced") {
					ck.AddAttrs(&Enforced{V: true})
				}
			default:
				if verifBool("hasenforced") {
					ck.AddAttrs(&Enforced{V: verifBool("enforced")})
				}
			}
			t0.AddChecks(ck)
			// unnamed checks, possibly several of them (they all share the empty name)
			nun := verifChoice("unnamed", 3)
			for k := 0; k < nun; k++ {
				t0.AddChecks(schema.NewCheck().SetExpr([]string{"(`n` < 100)", "(`n` <> 7)"}[k]))
			}
		}
	}
	s.AddTables(t1, t0)
	return s
}

// verifDocWitness: the witness harness of the listed finding builds only the failing shape.
var verifDocWitness bool

func VerifHarness_C15_mysql_doc_witness() {
	verifDocWitness = true
	defer func() { verifDocWitness = false }()
	verifDocRoundTrip(verifDocSchema(2))
}

// verifPrintable: enum values are printable bytes here (control characters are
// escaped by the HCL writer; they are exercised by the string family instead).
func verifPrintable(vs []string) {
	for _, v := range vs {
		for i := 0; i < len(v); i++ {
			verifAssume(v[i] >= 0x20 && v[i] != 0x7f)
		}
	}
}

func verifDocRoundTrip(s *schema.Schema) {
	buf, err := MarshalHCL(s)
	verifAssert(err == nil, "the schema marshals")
	if err != nil {
		return
	}
	verifObserve("hcl", string(buf))
	var s2 schema.Schema
	err = EvalHCLBytes(buf, &s2, nil)
	if err != nil {
		verifAssert(false, "the marshalled document evaluates: "+err.Error())
		return
	}
	verifReach("evaluated")
	c1, err := DefaultDiff.SchemaDiff(s, &s2)
	if err != nil {
		verifAssert(false, "diff original -> evaluated: "+err.Error())
	}
	for _, c := range c1 {
		verifAssert(false, "no change between the schema and its HCL image: "+verifChangeText(c))
	}
	c2, err := DefaultDiff.SchemaDiff(&s2, s)
	verifAssert(err == nil, "diff evaluated -> original")
	for _, c := range c2 {
		verifAssert(false, "no change between the HCL image and the schema: "+verifChangeText(c))
	}
	buf2, err := MarshalHCL(&s2)
	verifAssert(err == nil, "the evaluated schema marshals")
	verifAssert(string(buf2) == string(buf), "marshalling the evaluated schema gives the same bytes")
}

func verifChangeText(c schema.Change) string {
	switch c := c.(type) {
	case *schema.ModifyTable:
		out := "ModifyTable " + c.T.Name + ":"
		for _, cc := range c.Changes {
			out += " " + verifChangeText(cc)
		}
		return out
	case *schema.ModifyColumn:
		return "ModifyColumn " + c.To.Name
	case *schema.ModifyIndex:
		return "ModifyIndex " + c.To.Name
	case *schema.ModifyForeignKey:
		return "ModifyForeignKey " + c.To.Symbol
	}
	return fmt.Sprintf("%T", c)
}

func VerifHarness_C15_mysql_doc_types()   { verifDocRoundTrip(verifDocSchema(0)) }
func VerifHarness_C15_mysql_doc_strings() { verifDocRoundTrip(verifDocSchema(1)) }
func VerifHarness_C15_mysql_doc_objects() { verifDocRoundTrip(verifDocSchema(2)) }
