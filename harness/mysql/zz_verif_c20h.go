package mysql

import (
	"ariga.io/atlas/sql/schema"
	"github.com/hashicorp/hcl/v2/hclparse"
)

// C20 (HCL evaluation): the same set of HCL files yields the same realm - and
// the same marshalled document - whatever order Go's maps (the parser's file
// map, block and variable maps of the evaluator) are iterated in. The real
// hclparse parser, schemahcl evaluator, specutil conversions and MarshalHCL run
// in the engine; map iteration orders in Atlas code are choice points.

var verifHCLFiles = [][][2]string{
	// same base name in two directories, independent tables
	{
		{"users/schema.hcl", "schema \"app\" {}\ntable \"users\" {\n  schema = schema.app\n  column \"id\" {\n    type = int\n  }\n}\n"},
		{"orders/schema.hcl", "table \"orders\" {\n  schema = schema.app\n  column \"id\" {\n    type = int\n  }\n}\n"},
	},
	// a foreign key across files, distinct names
	{
		{"b.hcl", "table \"orders\" {\n  schema = schema.app\n  column \"id\" {\n    type = int\n  }\n  column \"uid\" {\n    type = int\n  }\n  foreign_key \"f\" {\n    columns = [column.uid]\n    ref_columns = [table.users.column.id]\n  }\n}\n"},
		{"a.hcl", "schema \"app\" {}\ntable \"users\" {\n  schema = schema.app\n  column \"id\" {\n    type = int\n  }\n  primary_key {\n    columns = [column.id]\n  }\n}\n"},
	},
	// three files, two sharing a base name, several tables per file
	{
		{"x/t.hcl", "table \"t1\" {\n  schema = schema.app\n  column \"id\" {\n    type = int\n  }\n}\ntable \"t2\" {\n  schema = schema.app\n  column \"id\" {\n    type = int\n  }\n}\n"},
		{"y/t.hcl", "table \"t3\" {\n  schema = schema.app\n  column \"id\" {\n    type = int\n  }\n  index \"i\" {\n    columns = [column.id]\n  }\n}\n"},
		{"s.hcl", "schema \"app\" {}\n"},
	},
}

func verifEvalFiles(shape int) string {
	p := hclparse.NewParser()
	for _, f := range verifHCLFiles[shape] {
		_, d := p.ParseHCL([]byte(f[1]), f[0])
		verifAssert(!d.HasErrors(), "file parses")
	}
	var r schema.Realm
	err := EvalHCL.Eval(p, &r, nil)
	verifAssert(err == nil, "documents evaluate")
	if err != nil {
		return "error: " + err.Error()
	}
	buf, err := MarshalHCL(&r)
	verifAssert(err == nil, "the realm marshals")
	return string(buf)
}

func VerifHarness_C20_mysql_hcl() {
	shape := verifChoice("shape", len(verifHCLFiles))
	verifMapOrder(false)
	a := verifEvalFiles(shape)
	verifMapOrder(true)
	b := verifEvalFiles(shape)
	verifMapOrder(false)
	verifReach("compared")
	verifObserve("doc", a)
	verifAssert(a == b, "evaluating and re-marshalling the same files does not depend on map iteration order")
}
