package schemahcl

import (
	"fmt"

	"github.com/zclconf/go-cty/cty"
)

// Export shim for the verification harnesses of the driver packages (overlaid
// into this package; never part of a normal build). It exposes, without
// changing them, the two halves of how a column type crosses an HCL document:
//
//   - VerifHclType: what the marshaler writes for a *Type (State.findTypeSpec +
//     hclType, exactly as in State.setAttr);
//   - VerifEvalType: what evaluating `name` or `name(args...)` yields, following
//     WithTypes: a bare name is a variable that exists only for specs without
//     required arguments, a call goes through the real cty function built by
//     typeFuncSpec (parameter checking included).

// VerifHclType returns the HCL text of the type; ok=false when the marshaler
// falls back to sql("...").
func VerifHclType(r *TypeRegistry, typ *Type) (text string, ok bool, err error) {
	for _, v := range r.Specs() {
		if v.T == typ.T {
			text, err = hclType(v, typ)
			return text, true, err
		}
	}
	return "", false, nil
}

// VerifEvalType evaluates the type expression `name` (call=false) or
// `name(args...)` (call=true) against the registry.
func VerifEvalType(r *TypeRegistry, name string, call bool, args []cty.Value) (*Type, error) {
	for _, typeSpec := range r.Specs() {
		if typeSpec.Name != name {
			continue
		}
		if !call {
			if len(typeFuncReqArgs(typeSpec)) != 0 {
				return nil, fmt.Errorf("unknown variable %q (type has required arguments)", name)
			}
			return &Type{T: typeSpec.T}, nil
		}
		if len(typeFuncArgs(typeSpec)) == 0 {
			return nil, fmt.Errorf("unknown function %q (type takes no arguments)", name)
		}
		v, err := typeFuncSpec(typeSpec).Call(args)
		if err != nil {
			return nil, err
		}
		t, ok := v.EncapsulatedValue().(*Type)
		if !ok {
			return nil, fmt.Errorf("unexpected value %v", v)
		}
		return t, nil
	}
	return nil, fmt.Errorf("unknown type %q", name)
}
