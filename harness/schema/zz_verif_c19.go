package schema

import (
	"fmt"
	"path/filepath"
	"strings"
)

// C19 (exclusion half): ExcludeRealm against a declarative reference.

var verifTypeWords = []string{"", "schema", "table", "view", "column", "index", "fk", "check", "trigger", "function", "table|view", "column|index|fk", "bogus"}

// verifClassAlpha, when set by a family, narrows the glob alphabet to what character classes
// are made of (a class needs at least three characters, e.g. "[a]", "[^a]", "[a-b]").
func verifGlobClass(tag string, n int) string {
	g := verifString(tag, n)
	for i := 0; i < n; i++ {
		c := g[i]
		verifAssume(verifOr(verifOr(c == 'a', c == 'b'), verifOr(verifOr(c == '[', c == ']'), verifOr(c == '-', c == '^'))))
	}
	return g
}

func verifGlob(tag string, n int) string {
	if n < 0 {
		return verifGlobClass(tag, -n)
	}
	g := verifString(tag, n)
	for i := 0; i < n; i++ {
		c := g[i]
		verifAssume(c >= 'a' && c <= 'c' || c == '*' || c == '?' || c == '[' || c == ']' || c == '-' || c == '^' || c == '\\')
	}
	return g
}

func verifName(tag string) string {
	s := verifString(tag, 1)
	verifAssume(s[0] >= 'a' && s[0] <= 'c')
	return s
}

func verifAdmits(sel, kind string) bool {
	if sel == "" {
		return true
	}
	for _, w := range strings.Split(sel, "|") {
		if w == kind {
			return true
		}
	}
	return false
}

type verifPat struct {
	parts []string
	sel   string
}

// verifRealm: 2 schemas x 2 tables x (2 columns, index on column 0, fk on
// column 1, a named check). Names are symbolic letters.
func verifRealm(symNames bool) *Realm {
	r := NewRealm()
	for si := 0; si < 2; si++ {
		sn := string(rune('a' + si))
		if symNames {
			sn = verifName(fmt.Sprintf("s%d", si))
		}
		s := New(sn)
		r.AddSchemas(s)
		var tabs []*Table
		for ti := 0; ti < 2; ti++ {
			tn := string(rune('a' + ti))
			if symNames {
				tn = verifName(fmt.Sprintf("s%dt%d", si, ti))
			}
			t := NewTable(tn)
			c0 := NewIntColumn("a", "int")
			c1 := NewIntColumn("b", "int")
			if symNames && si == 0 && ti == 0 {
				c0.Name = verifName("c0")
				c1.Name = verifName("c1")
			}
			t.AddColumns(c0, c1)
			t.AddIndexes(NewIndex("b").AddColumns(c0))
			t.AddChecks(NewCheck().SetName("c").SetExpr("true"))
			s.AddTables(t)
			tabs = append(tabs, t)
		}
		for ti, t := range tabs {
			o := tabs[1-ti]
			t.AddForeignKeys(NewForeignKey("a").AddColumns(t.Columns[1]).SetRefTable(o).AddRefColumns(o.Columns[0]))
		}
	}
	return r
}

type verifRes struct {
	kind, schema, table, name string
	onCol                     string // column an index/fk is built on ("" otherwise)
}

func verifListRealm(r *Realm) []verifRes {
	var out []verifRes
	for _, s := range r.Schemas {
		out = append(out, verifRes{kind: "schema", schema: s.Name})
		for _, t := range s.Tables {
			out = append(out, verifRes{kind: "table", schema: s.Name, table: t.Name})
			for _, c := range t.Columns {
				out = append(out, verifRes{kind: "column", schema: s.Name, table: t.Name, name: c.Name})
			}
			for _, i := range t.Indexes {
				out = append(out, verifRes{kind: "index", schema: s.Name, table: t.Name, name: i.Name, onCol: i.Parts[0].C.Name})
			}
			for _, f := range t.ForeignKeys {
				out = append(out, verifRes{kind: "fk", schema: s.Name, table: t.Name, name: f.Symbol, onCol: f.Columns[0].Name})
			}
			for _, a := range t.Attrs {
				if c, ok := a.(*Check); ok {
					out = append(out, verifRes{kind: "check", schema: s.Name, table: t.Name, name: c.Name})
				}
			}
		}
	}
	return out
}

func verifMatch(glob, name string) bool {
	m, err := filepath.Match(glob, name)
	return err == nil && m
}

// verifExcluded: the declarative reference. A resource is excluded when some
// pattern addresses it (every part matches its path) and the selector admits
// its kind; children of an excluded schema/table are excluded with it.
func verifExcluded(x verifRes, pats []verifPat) bool {
	for _, p := range pats {
		n := len(p.parts)
		if !verifMatch(p.parts[0], x.schema) {
			continue
		}
		if n == 1 {
			if verifAdmits(p.sel, "schema") {
				return true
			}
			continue
		}
		if x.kind == "schema" || !verifMatch(p.parts[1], x.table) {
			continue
		}
		if n == 2 {
			if verifAdmits(p.sel, "table") {
				return true
			}
			continue
		}
		if x.kind == "table" {
			continue
		}
		if verifMatch(p.parts[2], x.name) && verifAdmits(p.sel, x.kind) {
			return true
		}
	}
	return false
}

func verifKey(x verifRes) string { return x.kind + "/" + x.schema + "/" + x.table + "/" + x.name }

func verifC19(npat, globLen int, symNames, lite bool) {
	var pats []verifPat
	var strs []string
	for k := 0; k < npat; k++ {
		n := verifChoice(fmt.Sprintf("parts%d", k), 3) + 1
		var p verifPat
		for j := 0; j < n; j++ {
			if lite && j < n-1 {
				// lite: only the last part is a symbolic glob
				p.parts = append(p.parts, []string{"*", "a"}[verifChoice(fmt.Sprintf("fix%d_%d", k, j), 2)])
				continue
			}
			p.parts = append(p.parts, verifGlob(fmt.Sprintf("g%d_%d", k, j), globLen))
		}
		words := verifTypeWords
		if lite {
			words = []string{"", "table|view", "column|index|fk", "check"}
		}
		p.sel = words[verifChoice(fmt.Sprintf("sel%d", k), len(words))]
		txt := strings.Join(p.parts, ".")
		if p.sel != "" {
			txt += "[type=" + p.sel + "]"
		}
		pats = append(pats, p)
		strs = append(strs, txt)
	}
	before := verifListRealm(verifRealm(false))
	r := verifRealm(symNames)
	if symNames {
		before = verifListRealm(r)
	}
	got, err := ExcludeRealm(r, strs)
	if err != nil {
		verifReach("error")
		return // malformed pattern (bad glob syntax, csv quoting): rejected, nothing planned
	}
	verifReach("ok")
	after := map[string]bool{}
	for _, x := range verifListRealm(got) {
		after[verifKey(x)] = true
	}
	for _, x := range before {
		// excluded directly, or because its schema / table is excluded
		ex := verifExcluded(x, pats)
		if x.kind != "schema" {
			ex = ex || verifExcluded(verifRes{kind: "schema", schema: x.schema}, pats)
		}
		if x.kind != "schema" && x.kind != "table" {
			ex = ex || verifExcluded(verifRes{kind: "table", schema: x.schema, table: x.table}, pats)
		}
		present := after[verifKey(x)]
		if ex {
			verifReach("excluded")
			verifAssert(!present, "a resource matching an exclude pattern is absent: "+x.kind)
			continue
		}
		// indexes / foreign keys built on an excluded column may go with it
		if x.onCol != "" && verifExcluded(verifRes{kind: "column", schema: x.schema, table: x.table, name: x.onCol}, pats) {
			continue
		}
		verifAssert(present, "a resource matching no pattern is still present: "+x.kind)
	}
}

func VerifHarness_C19_p1()    { verifC19(1, 1, false, false) }
func VerifHarness_C19_p1g2()  { verifC19(1, 2, false, true) }
func VerifHarness_C19_p1g3()  { verifC19(1, 3, false, true) }
func VerifHarness_C19_p1c3()  { verifC19(1, -3, false, true) }
func VerifHarness_C19_p1c4()  { verifC19(1, -4, false, true) }
func VerifHarness_C19_p1sym() { verifC19(1, 1, true, true) }
func VerifHarness_C19_p2()    { verifC19(2, 1, false, true) }

// verifC19Schema: the schema-scoped entry point (what a schema-bound
// connection uses, e.g. SQLite's "main"): patterns are relative to the schema.
// The realm has table names equal to a schema name (schema "a" holds tables
// "a" and "b"), so a pattern part cannot be confused with the qualifier.
func verifC19Schema(globLen int) {
	n := verifChoice("parts", 2) + 1
	var p verifPat
	for j := 0; j < n; j++ {
		p.parts = append(p.parts, verifGlob(fmt.Sprintf("g%d", j), globLen))
	}
	p.sel = []string{"", "table|view", "column|index|fk", "check"}[verifChoice("sel", 4)]
	txt := strings.Join(p.parts, ".")
	if p.sel != "" {
		txt += "[type=" + p.sel + "]"
	}
	r := verifRealm(false)
	before := verifListRealm(r)
	si := verifChoice("schema", 2)
	s := r.Schemas[si]
	got, err := ExcludeSchema(s, []string{txt})
	if err != nil {
		verifReach("error")
		return
	}
	verifReach("ok")
	verifAssert(got == s, "the schema itself is returned")
	after := map[string]bool{}
	for _, x := range verifListRealm(r) {
		after[verifKey(x)] = true
	}
	// reference: the pattern qualified with the literal schema name
	ref := []verifPat{{parts: append([]string{s.Name}, p.parts...), sel: p.sel}}
	for _, x := range before {
		if x.kind == "schema" {
			verifAssert(after[verifKey(x)], "a schema-scoped pattern never removes a schema")
			continue
		}
		ex := x.schema == s.Name && verifExcluded(x, ref)
		if x.kind != "table" && x.schema == s.Name {
			ex = ex || verifExcluded(verifRes{kind: "table", schema: x.schema, table: x.table}, ref)
		}
		present := after[verifKey(x)]
		if ex {
			verifReach("excluded")
			verifAssert(!present, "a resource of the schema matching the pattern is absent: "+x.kind)
			continue
		}
		if x.onCol != "" && x.schema == s.Name && verifExcluded(verifRes{kind: "column", schema: x.schema, table: x.table, name: x.onCol}, ref) {
			continue
		}
		verifAssert(present, "a resource matching no pattern (or of another schema) is still present: "+x.kind)
	}
}

func VerifHarness_C19_schema1()  { verifC19Schema(1) }
func VerifHarness_C19_schema2()  { verifC19Schema(2) }
func VerifHarness_C19_schemac3() { verifC19Schema(-3) }
