package sqltool

import (
	"fmt"
	"strings"

	"ariga.io/atlas/sql/internal/sqlx"
	"ariga.io/atlas/sql/migrate"
)

// C17 (flag + down files): Plan.Reversible iff every change has a reverse
// statement; the down file / section of every formatter holds exactly the
// reverse statements of the changes in reverse order.

func verifPlan(n, slen int) (*migrate.Plan, [][]string) {
	p := &migrate.Plan{Version: "1", Name: "n"}
	var revs [][]string
	for i := 0; i < n; i++ {
		c := &migrate.Change{Cmd: fmt.Sprintf("UP %d", i)}
		if verifChoice(fmt.Sprintf("comment%d", i), 2) == 1 {
			c.Comment = fmt.Sprintf("change %d", i)
		}
		txt := func(k int) string {
			s := verifString(fmt.Sprintf("r%d_%d", i, k), slen)
			for j := 0; j < len(s); j++ {
				// one solver constraint per byte (no fork per alternative)
				ok := verifOr(verifAnd(s[j] >= 'a', s[j] <= 'z'), verifAnd(s[j] >= '0', s[j] <= '9'))
				ok = verifOr(ok, verifOr(s[j] == ' ', verifOr(s[j] == '_', s[j] == ',')))
				verifAssume(ok)
			}
			return "DOWN " + s + fmt.Sprint(i, k)
		}
		var r []string
		switch verifChoice(fmt.Sprintf("reverse%d", i), 5) {
		case 0:
		case 1:
			s := txt(0)
			c.Reverse = s
			r = []string{s}
		case 2:
			c.Reverse = []string{}
		case 3:
			r = []string{txt(0)}
			c.Reverse = r
		default:
			r = []string{txt(0), txt(1)}
			c.Reverse = r
		}
		p.Changes = append(p.Changes, c)
		revs = append(revs, r)
	}
	return p, revs
}

func verifC17(n, slen int) {
	p, revs := verifPlan(n, slen)
	verifAssert(sqlx.SetReversible(p) == nil, "reverse statements are well formed")
	all := true
	for _, r := range revs {
		if len(r) == 0 {
			all = false
		}
	}
	verifAssert(p.Reversible == all, "a plan is reported reversible iff every change has at least one reverse statement")
	if all {
		verifReach("reversible")
	} else {
		verifReach("irreversible")
	}
	var want []string
	for i := len(revs) - 1; i >= 0; i-- {
		want = append(want, revs[i]...)
	}
	type fm struct {
		name string
		f    migrate.Formatter
	}
	fs := []fm{{"golang-migrate", GolangMigrateFormatter}, {"goose", GooseFormatter}, {"flyway", FlywayFormatter}, {"dbmate", DBMateFormatter}}
	f := fs[verifChoice("formatter", len(fs))]
	files, err := f.f.Format(p)
	verifAssert(err == nil, "the plan is formatted")
	if err != nil {
		return
	}
	var down string
	switch f.name {
	case "golang-migrate", "flyway":
		verifAssert(len(files) == 2, "an up and a down file are written")
		if len(files) != 2 {
			return
		}
		down = string(files[1].Bytes())
	case "goose":
		_, down, _ = strings.Cut(string(files[0].Bytes()), "-- +goose Down\n")
	case "dbmate":
		_, down, _ = strings.Cut(string(files[0].Bytes()), "-- migrate:down\n")
	}
	verifObserve("down", down)
	stmts, err := migrate.Stmts(down)
	verifAssert(err == nil, "the down section scans")
	if err != nil {
		return
	}
	verifAssert(len(stmts) == len(want), "the down file holds exactly the reverse statements of the plan")
	for i := range stmts {
		if i < len(want) {
			verifAssert(stmts[i].Text == want[i]+";", "reverse statements appear in reverse change order, unchanged")
		}
	}
}

func VerifHarness_C17_files2() { verifC17(2, 1) }
func VerifHarness_C17_files3() { verifC17(3, 1) }

// verifC17Long: long plans. Every change has exactly one concrete reverse
// statement (one of them carries a symbolic byte); the number of changes is a
// choice over lengths around the thresholds of Go's sort and slice algorithms.
func verifC17Long() {
	n := []int{1, 5, 12, 13, 14, 20, 33}[verifChoice("changes", 7)]
	p := &migrate.Plan{Version: "1", Name: "n"}
	var want []string
	sym := verifString("r", 1)
	verifAssume(sym[0] >= 'a' && sym[0] <= 'z')
	for i := 0; i < n; i++ {
		r := fmt.Sprintf("DOWN %d", i)
		if i == n/2 {
			r += " " + sym
		}
		p.Changes = append(p.Changes, &migrate.Change{Cmd: fmt.Sprintf("UP %d", i), Reverse: r})
	}
	for i := n - 1; i >= 0; i-- {
		want = append(want, p.Changes[i].Reverse.(string))
	}
	verifAssert(sqlx.SetReversible(p) == nil && p.Reversible, "the plan is reversible")
	fs := []migrate.Formatter{GolangMigrateFormatter, GooseFormatter, FlywayFormatter, DBMateFormatter}
	fi := verifChoice("formatter", len(fs))
	files, err := fs[fi].Format(p)
	verifAssert(err == nil, "the plan is formatted")
	if err != nil {
		return
	}
	var down string
	switch fi {
	case 0, 2:
		verifAssert(len(files) == 2, "an up and a down file are written")
		if len(files) != 2 {
			return
		}
		down = string(files[1].Bytes())
	case 1:
		_, down, _ = strings.Cut(string(files[0].Bytes()), "-- +goose Down\n")
	case 3:
		_, down, _ = strings.Cut(string(files[0].Bytes()), "-- migrate:down\n")
	}
	stmts, err := migrate.Stmts(down)
	verifAssert(err == nil, "the down section scans")
	if err != nil {
		return
	}
	verifReach("reversible")
	verifAssert(len(stmts) == len(want), "the down file holds exactly the reverse statements of the plan")
	for i := range stmts {
		if i < len(want) {
			verifAssert(stmts[i].Text == want[i]+";", "reverse statements appear in reverse change order, unchanged")
		}
	}
	// the plan itself is not reordered by formatting
	for i, c := range p.Changes {
		verifAssert(c.Cmd == fmt.Sprintf("UP %d", i), "formatting leaves the plan's changes in place")
	}
}

func VerifHarness_C17_long() { verifC17Long() }
