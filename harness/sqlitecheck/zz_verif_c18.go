package sqlitecheck

import (
	"context"
	"fmt"

	"ariga.io/atlas/sql/migrate"
	"ariga.io/atlas/sql/schema"
	"ariga.io/atlas/sql/sqlcheck"
	"ariga.io/atlas/sql/sqlclient"
	"ariga.io/atlas/sql/sqlite"
)

// C18 (SQLite rebuild recognition): Atlas's own SQLite plans change a table by
// CREATE new_T / INSERT / DROP T / RENAME. The SQLite analyzer set folds such a
// sequence into one ModifyTable before the destructive analyzer runs. For every
// file made of rebuild units and plain statements, exactly the destructive
// statements are reported: a rebuild that loses a column (at the position of
// its first statement) and a plain DROP TABLE - never a rebuild that keeps all
// columns, and never less because a statement next to a rebuild was swallowed.

type verifDiffDrv struct{ migrate.Driver }

func (verifDiffDrv) TableDiff(from, to *schema.Table, opts ...schema.DiffOption) ([]schema.Change, error) {
	return sqlite.DefaultDiff.TableDiff(from, to, opts...)
}

func verifC18Rebuild(maxUnits int) {
	sch := schema.New("main")
	mk := func(name string, cols ...string) *schema.Table {
		t := schema.NewTable(name).SetSchema(sch)
		for _, c := range cols {
			t.AddColumns(schema.NewIntColumn(c, "integer"))
		}
		return t
	}
	f := &sqlcheck.File{}
	pos := 0
	add := func(text string, cs ...schema.Change) int {
		p := pos
		f.Changes = append(f.Changes, &sqlcheck.Change{Stmt: &migrate.Stmt{Pos: p, Text: text}, Changes: cs})
		pos += 10
		return p
	}
	type want struct {
		code string
		pos  int
	}
	var wants []want
	n := verifChoice("units", maxUnits) + 1
	for u := 0; u < n; u++ {
		// the first letter is symbolic over {t, n, e, w, _}: a table name may begin with the
		// very letters of the "new_" prefix the rebuild uses
		first := verifString(fmt.Sprintf("name%d", u), 1)
		verifAssume(verifOr(verifOr(first[0] == 't', first[0] == 'n'), verifOr(verifOr(first[0] == 'e', first[0] == 'w'), first[0] == '_')))
		name := first + fmt.Sprintf("%d", u)
		switch verifChoice(fmt.Sprintf("unit%d", u), 5) {
		case 0: // rebuild keeping every column (e.g. a type change)
			add("CREATE new", &schema.AddTable{T: mk("new_"+name, "id", "c")})
			add("INSERT")
			add("DROP", &schema.DropTable{T: mk(name, "id", "c")})
			add("RENAME", &schema.RenameTable{From: mk("new_"+name, "id", "c"), To: mk(name, "id", "c")})
		case 1: // rebuild that loses column c
			p := add("CREATE new", &schema.AddTable{T: mk("new_"+name, "id")})
			add("INSERT")
			add("DROP", &schema.DropTable{T: mk(name, "id", "c")})
			add("RENAME", &schema.RenameTable{From: mk("new_"+name, "id"), To: mk(name, "id")})
			wants = append(wants, want{"DS103", p})
		case 2: // rebuild seen without a parser: the rename shows as DROP new_T + ADD T
			add("CREATE new", &schema.AddTable{T: mk("new_"+name, "id", "c")})
			add("INSERT")
			add("DROP", &schema.DropTable{T: mk(name, "id", "c")})
			add("RENAME", &schema.DropTable{T: mk("new_"+name, "id", "c")}, &schema.AddTable{T: mk(name, "id", "c")})
		case 3: // a real table drop
			p := add("DROP TABLE", &schema.DropTable{T: mk(name, "id")})
			wants = append(wants, want{"DS102", p})
		case 4: // a purely additive statement
			add("CREATE TABLE", &schema.AddTable{T: mk(name, "id")})
		}
	}
	azs, err := analyzers(nil)
	verifAssert(err == nil, "analyzers")
	var got []want
	pass := &sqlcheck.Pass{
		File: f,
		Dev:  &sqlclient.Client{Driver: verifDiffDrv{}},
		Reporter: sqlcheck.ReportWriterFunc(func(r sqlcheck.Report) {
			for _, d := range r.Diagnostics {
				if d.Code == "DS102" || d.Code == "DS103" {
					got = append(got, want{d.Code, d.Pos})
				}
			}
		}),
	}
	failed := false
	for _, az := range azs {
		if err := az.Analyze(context.Background(), pass); err != nil {
			failed = true
		}
	}
	if len(wants) > 0 {
		verifReach("destructive")
	} else {
		verifReach("additive")
	}
	for _, w := range wants {
		found := false
		for _, g := range got {
			if g == w {
				found = true
			}
		}
		verifAssert(found, "a destructive statement or rebuild is reported at its position: "+w.code)
	}
	for _, g := range got {
		found := false
		for _, w := range wants {
			if g == w {
				found = true
			}
		}
		verifAssert(found, "nothing that keeps all data is reported as destructive: "+g.code)
	}
	verifAssert(failed == (len(wants) > 0), "the analysis fails exactly when the file is destructive")
}

func VerifHarness_C18_rebuild2() { verifC18Rebuild(2) }
func VerifHarness_C18_rebuild3() { verifC18Rebuild(3) }
