package postgres

import (
	"fmt"
	"strings"

	"ariga.io/atlas/sql/schema"
)

// C15 (type slice): FormatType / ParseType fix-point for every PostgreSQL type.

func verifPick(name string, opts ...string) string { return opts[verifChoice(name, len(opts))] }

func verifType() schema.Type {
	switch verifChoice("family", 20) {
	case 0:
		return &BitType{T: verifPick("t", TypeBit, TypeBitVar), Len: int64(verifInt("len", 0, 12))}
	case 1:
		return &schema.BoolType{T: verifPick("t", TypeBool, TypeBoolean)}
	case 2:
		return &schema.BinaryType{T: TypeBytea}
	case 3:
		return &CurrencyType{T: TypeMoney}
	case 4:
		return &schema.IntegerType{T: verifPick("t", TypeSmallInt, TypeInteger, TypeBigInt, TypeInt, TypeInt2, TypeInt4, TypeInt8, TypeXID, TypeXID8)}
	case 5:
		t := &IntervalType{T: TypeInterval, F: verifPick("f", "", "YEAR", "MONTH", "DAY", "HOUR", "MINUTE", "SECOND", "YEAR TO MONTH", "DAY TO HOUR", "DAY TO MINUTE", "DAY TO SECOND", "HOUR TO MINUTE", "HOUR TO SECOND", "MINUTE TO SECOND")}
		if verifBool("hasPrecision") {
			p := verifInt("precision", 0, 6)
			t.Precision = &p
		}
		return t
	case 6:
		return &schema.StringType{T: verifPick("t", TypeText, TypeBPChar, typeName, TypeChar, TypeCharacter, TypeVarChar, TypeCharVar), Size: verifInt("size", 0, 12)}
	case 7:
		t := &schema.TimeType{T: verifPick("t", TypeDate, TypeTime, TypeTimeTZ, TypeTimeWTZ, TypeTimeWOTZ, TypeTimestamp, TypeTimestampTZ, TypeTimestampWTZ, TypeTimestampWOTZ)}
		if verifBool("hasPrecision") {
			p := verifInt("precision", 0, 6)
			t.Precision = &p
		}
		return t
	case 8:
		return &schema.FloatType{T: verifPick("t", TypeReal, TypeDouble, TypeFloat4, TypeFloat8, TypeFloat), Precision: verifInt("precision", 0, 60)}
	case 9:
		return &schema.DecimalType{T: verifPick("t", TypeNumeric, TypeDecimal), Precision: verifInt("precision", 0, 12), Scale: verifInt("scale", 0, 12)}
	case 10:
		return &SerialType{T: verifPick("t", TypeSmallSerial, TypeSerial, TypeBigSerial, TypeSerial2, TypeSerial4, TypeSerial8)}
	case 11:
		return &schema.JSONType{T: verifPick("t", TypeJSON, TypeJSONB)}
	case 12:
		return &schema.UUIDType{T: TypeUUID}
	case 13:
		return &schema.SpatialType{T: verifPick("t", TypeCircle, TypeLine, TypeLseg, TypeBox, TypePath, TypePolygon, TypePoint)}
	case 14:
		return &NetworkType{T: verifPick("t", TypeCIDR, TypeInet, TypeMACAddr, TypeMACAddr8)}
	case 15:
		return &RangeType{T: verifPick("t", TypeInt4Range, TypeInt4MultiRange, TypeInt8Range, TypeInt8MultiRange, TypeNumRange, TypeNumMultiRange, TypeTSRange, TypeTSMultiRange, TypeTSTZRange, TypeTSTZMultiRange, TypeDateRange, TypeDateMultiRange)}
	case 16:
		return &OIDType{T: verifPick("t", typeOID, typeRegClass, typeRegCollation, typeRegConfig, typeRegDictionary, typeRegNamespace, typeRegOper, typeRegOperator, typeRegProc, typeRegProcedure, typeRegRole, typeRegType)}
	case 17:
		return &TextSearchType{T: verifPick("t", TypeTSVector, TypeTSQuery)}
	case 18:
		return &XMLType{T: TypeXML}
	}
	// arrays of base types, in CREATE TABLE and information_schema spellings
	elem := verifPick("elem", "int4", "integer", "text", "character varying", "varchar(10)", "numeric(5,2)", "timestamp with time zone", "uuid", "double precision")
	suffix := verifPick("suffix", "[]", "[3]", "[][]", " ARRAY", " ARRAY[4]")
	t, err := ParseType(elem + suffix)
	verifAssert(err == nil, "array type parses")
	return t
}

func VerifHarness_C15_postgres() {
	t := verifType()
	s, err := FormatType(t)
	if err != nil {
		verifReach("format-error")
		return
	}
	verifReach("formatted")
	t1, err := ParseType(s)
	verifAssert(err == nil, "a formatted type parses")
	if err != nil {
		return
	}
	verifAssert(verifSem(t1) == verifSem(t), "the parsed type means the same as the original (family, storage class, size, precision, scale)")
	_, ud := t1.(*UserDefinedType)
	verifAssert(!ud, "a formatted built-in type does not parse to a user-defined type")
	s1, err := FormatType(t1)
	verifAssert(err == nil, "the parsed type formats")
	verifObserve("fmt", s)
	verifAssert(s1 == s, "format(parse(format(t))) == format(t)")
	t2, err := ParseType(s1)
	verifAssert(err == nil, "second parse")
	s2, _ := FormatType(t2)
	verifAssert(s2 == s1, "format/parse is idempotent")
}

// verifSem is an independent semantic projection of a PostgreSQL type.
func verifSem(t schema.Type) string {
	switch t := t.(type) {
	case *BitType:
		n := t.Len
		if strings.ToLower(t.T) == TypeBit && n == 0 {
			n = 1 // BIT == BIT(1)
		}
		return fmt.Sprintf("%s/%d", strings.ToLower(t.T), n)
	case *schema.BoolType:
		return "bool"
	case *schema.BinaryType:
		return "bytea"
	case *CurrencyType:
		return "money"
	case *schema.IntegerType:
		switch strings.ToLower(t.T) {
		case TypeSmallInt, TypeInt2:
			return "int/2"
		case TypeInteger, TypeInt, TypeInt4:
			return "int/4"
		case TypeBigInt, TypeInt8:
			return "int/8"
		}
		return "int/" + strings.ToLower(t.T)
	case *IntervalType:
		p := defaultTimePrecision
		if t.Precision != nil {
			p = *t.Precision
		}
		return fmt.Sprintf("interval/%s/%d", strings.ToUpper(t.F), p)
	case *schema.StringType:
		switch strings.ToLower(t.T) {
		case TypeChar, TypeCharacter:
			n := t.Size
			if n == 0 {
				n = 1
			}
			return fmt.Sprintf("char/%d", n)
		case TypeVarChar, TypeCharVar:
			return fmt.Sprintf("varchar/%d", t.Size)
		}
		return "string/" + strings.ToLower(t.T)
	case *schema.TimeType:
		name := strings.ToLower(t.T)
		switch name {
		case TypeTimeWOTZ:
			name = TypeTime
		case TypeTimeWTZ:
			name = TypeTimeTZ
		case TypeTimestampWOTZ:
			name = TypeTimestamp
		case TypeTimestampWTZ:
			name = TypeTimestampTZ
		}
		p := defaultTimePrecision
		if t.Precision != nil && name != TypeDate {
			p = *t.Precision
		}
		return fmt.Sprintf("%s/%d", name, p)
	case *schema.FloatType:
		switch strings.ToLower(t.T) {
		case TypeReal, TypeFloat4:
			return "float/4"
		case TypeDouble, TypeFloat8:
			return "float/8"
		}
		if t.Precision > 0 && t.Precision <= 24 {
			return "float/4"
		}
		return "float/8"
	case *schema.DecimalType:
		return fmt.Sprintf("numeric/%d/%d", t.Precision, t.Scale)
	case *SerialType:
		switch strings.ToLower(t.T) {
		case TypeSmallSerial, TypeSerial2:
			return "serial/2"
		case TypeSerial, TypeSerial4:
			return "serial/4"
		}
		return "serial/8"
	case *schema.JSONType:
		return strings.ToLower(t.T)
	case *schema.UUIDType:
		return "uuid"
	case *schema.SpatialType:
		return "spatial/" + strings.ToLower(t.T)
	case *NetworkType:
		return "net/" + strings.ToLower(t.T)
	case *RangeType:
		return "range/" + strings.ToLower(t.T)
	case *OIDType:
		return "oid/" + strings.ToLower(t.T)
	case *TextSearchType:
		return "ts/" + strings.ToLower(t.T)
	case *XMLType:
		return "xml"
	case *ArrayType:
		if t.Type == nil {
			return "array/?"
		}
		return "array/" + verifSem(t.Type)
	}
	return "other"
}
