package postgres

import (
	"ariga.io/atlas/sql/schema"
)

// C15 (type slice): FormatType / ParseType fix-point for every PostgreSQL type.

func verifPick(name string, opts ...string) string { return opts[verifChoice(name, len(opts))] }

func verifType() schema.Type {
	switch verifChoice("family", 20) {
	case 0:
		return &BitType{T: verifPick("t", TypeBit, TypeBitVar), Len: int64(verifInt("len", 0, 12))}
	case 1:
		return &schema.BoolType{T: verifPick("t", TypeBool, TypeBoolean)}
	case 2:
		return &schema.BinaryType{T: TypeBytea}
	case 3:
		return &CurrencyType{T: TypeMoney}
	case 4:
		return &schema.IntegerType{T: verifPick("t", TypeSmallInt, TypeInteger, TypeBigInt, TypeInt, TypeInt2, TypeInt4, TypeInt8, TypeXID, TypeXID8)}
	case 5:
		t := &IntervalType{T: TypeInterval, F: verifPick("f", "", "YEAR", "MONTH", "DAY", "HOUR", "MINUTE", "SECOND", "YEAR TO MONTH", "DAY TO HOUR", "DAY TO MINUTE", "DAY TO SECOND", "HOUR TO MINUTE", "HOUR TO SECOND", "MINUTE TO SECOND")}
		if verifBool("hasPrecision") {
			p := verifInt("precision", 0, 6)
			t.Precision = &p
		}
		return t
	case 6:
		return &schema.StringType{T: verifPick("t", TypeText, TypeBPChar, typeName, TypeChar, TypeCharacter, TypeVarChar, TypeCharVar), Size: verifInt("size", 0, 12)}
	case 7:
		t := &schema.TimeType{T: verifPick("t", TypeDate, TypeTime, TypeTimeTZ, TypeTimeWTZ, TypeTimeWOTZ, TypeTimestamp, TypeTimestampTZ, TypeTimestampWTZ, TypeTimestampWOTZ)}
		if verifBool("hasPrecision") {
			p := verifInt("precision", 0, 6)
			t.Precision = &p
		}
		return t
	case 8:
		return &schema.FloatType{T: verifPick("t", TypeReal, TypeDouble, TypeFloat4, TypeFloat8, TypeFloat), Precision: verifInt("precision", 0, 60)}
	case 9:
		return &schema.DecimalType{T: verifPick("t", TypeNumeric, TypeDecimal), Precision: verifInt("precision", 0, 12), Scale: verifInt("scale", 0, 12)}
	case 10:
		return &SerialType{T: verifPick("t", TypeSmallSerial, TypeSerial, TypeBigSerial, TypeSerial2, TypeSerial4, TypeSerial8)}
	case 11:
		return &schema.JSONType{T: verifPick("t", TypeJSON, TypeJSONB)}
	case 12:
		return &schema.UUIDType{T: TypeUUID}
	case 13:
		return &schema.SpatialType{T: verifPick("t", TypeCircle, TypeLine, TypeLseg, TypeBox, TypePath, TypePolygon, TypePoint)}
	case 14:
		return &NetworkType{T: verifPick("t", TypeCIDR, TypeInet, TypeMACAddr, TypeMACAddr8)}
	case 15:
		return &RangeType{T: verifPick("t", TypeInt4Range, TypeInt4MultiRange, TypeInt8Range, TypeInt8MultiRange, TypeNumRange, TypeNumMultiRange, TypeTSRange, TypeTSMultiRange, TypeTSTZRange, TypeTSTZMultiRange, TypeDateRange, TypeDateMultiRange)}
	case 16:
		return &OIDType{T: verifPick("t", typeOID, typeRegClass, typeRegCollation, typeRegConfig, typeRegDictionary, typeRegNamespace, typeRegOper, typeRegOperator, typeRegProc, typeRegProcedure, typeRegRole, typeRegType)}
	case 17:
		return &TextSearchType{T: verifPick("t", TypeTSVector, TypeTSQuery)}
	case 18:
		return &XMLType{T: TypeXML}
	}
	// arrays of base types, in CREATE TABLE and information_schema spellings
	elem := verifPick("elem", "int4", "integer", "text", "character varying", "varchar(10)", "numeric(5,2)", "timestamp with time zone", "uuid", "double precision")
	suffix := verifPick("suffix", "[]", "[3]", "[][]", " ARRAY", " ARRAY[4]")
	t, err := ParseType(elem + suffix)
	verifAssert(err == nil, "array type parses")
	return t
}

func VerifHarness_C15_postgres() {
	t := verifType()
	s, err := FormatType(t)
	if err != nil {
		verifReach("format-error")
		return
	}
	verifReach("formatted")
	t1, err := ParseType(s)
	verifAssert(err == nil, "a formatted type parses")
	if err != nil {
		return
	}
	_, ud := t1.(*UserDefinedType)
	verifAssert(!ud, "a formatted built-in type does not parse to a user-defined type")
	s1, err := FormatType(t1)
	verifAssert(err == nil, "the parsed type formats")
	verifObserve("fmt", s)
	verifAssert(s1 == s, "format(parse(format(t))) == format(t)")
	t2, err := ParseType(s1)
	verifAssert(err == nil, "second parse")
	s2, _ := FormatType(t2)
	verifAssert(s2 == s1, "format/parse is idempotent")
}
