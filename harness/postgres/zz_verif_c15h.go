package postgres

import (
	"strconv"
	"strings"

	"ariga.io/atlas/schemahcl"
	"ariga.io/atlas/sql/schema"
	"github.com/zclconf/go-cty/cty"
)

// C15 (HCL half, typed-spec level): a column type written to an HCL document
// by the real converter (columnTypeSpec -> TypeRegistry.Convert -> hclType)
// and read back by the real evaluator (type variable / type function of the
// registry -> convertColumnType -> TypeRegistry.Type -> PrintType -> ParseType)
// means the same type. The lexical layer in between (hclwrite tokens,
// hclsyntax parser) is replaced by verifParseTypeExpr below.

// verifParseTypeExpr splits `name` or `name(arg,...)` with integer, boolean and
// quoted-string arguments.
func verifParseTypeExpr(s string) (name string, call bool, args []cty.Value, ok bool) {
	i := strings.IndexByte(s, '(')
	if i < 0 {
		return s, false, nil, true
	}
	if !strings.HasSuffix(s, ")") {
		return "", false, nil, false
	}
	name, rest := s[:i], s[i+1:len(s)-1]
	for rest != "" {
		var tok string
		if rest[0] == '"' {
			j := 1
			for j < len(rest) && rest[j] != '"' {
				if rest[j] == '\\' {
					j++
				}
				j++
			}
			if j >= len(rest) {
				return "", false, nil, false
			}
			tok, rest = rest[:j+1], rest[j+1:]
			u, err := strconv.Unquote(tok)
			if err != nil {
				return "", false, nil, false
			}
			args = append(args, cty.StringVal(u))
		} else {
			j := strings.IndexByte(rest, ',')
			if j < 0 {
				j = len(rest)
			}
			tok, rest = rest[:j], rest[j:]
			switch tok {
			case "true":
				args = append(args, cty.True)
			case "false":
				args = append(args, cty.False)
			default:
				n, err := strconv.ParseInt(tok, 10, 64)
				if err != nil {
					return "", false, nil, false
				}
				args = append(args, cty.NumberIntVal(n))
			}
		}
		if rest != "" {
			if rest[0] != ',' {
				return "", false, nil, false
			}
			rest = rest[1:]
		}
	}
	return name, true, args, true
}

func VerifHarness_C15_postgres_hcl() {
	t := verifType()
	verifAssume(verifRealistic(t))
	s, err := FormatType(t)
	if err != nil {
		return
	}
	// what inspection yields for a column of this type
	t0, err := ParseType(s)
	if err != nil {
		return
	}
	col, err := columnTypeSpec(t0)
	verifAssert(err == nil, "the type converts to a column spec")
	if err != nil {
		return
	}
	text, ok, err := schemahcl.VerifHclType(TypeRegistry, col.Type)
	verifAssert(err == nil, "the type spec prints")
	if err != nil {
		return
	}
	if !ok {
		verifReach("sql-fallback") // written as sql("..."): read back by ParseType directly
		t1, err := ParseType(col.Type.T)
		verifAssert(err == nil && verifSem(t1) == verifSem(t0), "a type written as sql(...) reads back as the same type")
		return
	}
	verifObserve("hcl", text)
	name, call, args, ok := verifParseTypeExpr(text)
	verifAssert(ok, "the printed type is a well-formed name or call")
	if !ok {
		return
	}
	typ, err := schemahcl.VerifEvalType(TypeRegistry, name, call, args)
	verifAssert(err == nil, "the printed type evaluates against the registry")
	if err != nil {
		return
	}
	col2 := *col
	col2.Type = typ
	t1, err := convertColumnType(&col2)
	verifAssert(err == nil, "the evaluated type converts to a schema type")
	if err != nil {
		return
	}
	verifReach("roundtrip")
	s0, _ := FormatType(t0)
	s1, _ := FormatType(t1)
	verifObserve("before", s0)
	verifObserve("after", s1)
	verifAssert(verifSem(t1) == verifSem(t0), "the type read back from HCL means the same as the inspected one")
}

// verifRealistic: types a PostgreSQL server can report. A fractional-seconds
// precision exists only on interval fields that include seconds.
func verifRealistic(t schema.Type) bool {
	if it, ok := t.(*IntervalType); ok && it.Precision != nil {
		switch strings.ToUpper(it.F) {
		case "", "SECOND", "DAY TO SECOND", "HOUR TO SECOND", "MINUTE TO SECOND":
		default:
			return false
		}
	}
	return true
}
