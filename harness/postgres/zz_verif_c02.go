package postgres

import (
	"fmt"

	"ariga.io/atlas/sql/schema"
)

// C02 (postgres differ): a table template whose element presence is structural
// (forked) and whose attributes are symbolic; the reported change set must be
// exactly the set of elementary edits. Also hosts the skip-policy half of C19.

type verifCol struct {
	present bool
	family  int // 0 int, 1 text, 2 real
	null    bool
	defForm int // 0 none, 1 'x', 2 "x"
	defVal  string
	comment int // 0 none, 1 symbolic one-letter text
	cmtVal  string
}

type verifSide struct {
	a         verifCol
	idx       bool
	idxUnique bool
	idxDesc   bool
	idxX      int  // expression part (group 6): 0 none, 1 (b + 1), 2 (b + 2)
	idxXDesc  bool // its direction
	idxPred   int  // index attributes (group 5): 0 none, 1 (b > 0), 2 (b > 1)
	idxIncl   int  // 0 none, 1 INCLUDE (c), 2 INCLUDE (c, b)
	idxHash   bool
	pk        bool
	fk        bool
	fkDelete  int // 0 "", 1 NO ACTION, 2 CASCADE, 3 RESTRICT, 4 SET NULL
	fkCols    int // composite key: 0 (b,c)->(id,id2), 1 child columns swapped, 2 parent columns swapped
	chk       bool
	chkExpr   string
	chkAttr   bool // the dialect's check attribute (MySQL NOT ENFORCED, PostgreSQL NO INHERIT)
	strict    bool
}

var verifActions = []schema.ReferenceOption{"", schema.NoAction, schema.Cascade, schema.Restrict, schema.SetNull}

// verifSideOf declares one side. group selects which elements vary:
// 0 column, 1 index + primary key, 2 foreign key + check + table option,
// 3 every element present/absent with fixed attributes (all pairs and more).
func verifSideOf(tag string, group int) verifSide {
	var s verifSide
	if group == 3 {
		s.a.present = verifChoice(tag+"_a", 2) == 1
		s.idx = verifChoice(tag+"_idx", 2) == 1
		s.pk = verifChoice(tag+"_pk", 2) == 1
		s.fk = verifChoice(tag+"_fk", 2) == 1
		s.chk = verifChoice(tag+"_chk", 2) == 1
		s.chkExpr = "x"
		return s
	}
	if group == 6 {
		// expression parts: a column part and an optional expression part, each with its direction
		s.idx = true
		s.idxDesc = verifBool(tag + "_idx_desc")
		s.idxX = verifChoice(tag+"_idx_x", 3)
		if s.idxX != 0 {
			s.idxXDesc = verifBool(tag + "_idx_xdesc")
		}
		return s
	}
	if group == 5 {
		// index attributes: the index is present on both sides, its attributes vary
		s.idx = true
		s.idxPred = verifChoice(tag+"_idx_pred", 3)
		s.idxIncl = verifChoice(tag+"_idx_incl", 3)
		s.idxHash = verifBool(tag + "_idx_hash")
		return s
	}
	if group == 4 {
		// skip-policy template: column, index, primary key and foreign key present or
		// absent; attributes differ between the sides so "both present" is a modify.
		s.a.present = verifChoice(tag+"_a", 2) == 1
		s.a.null = tag == "t"
		s.idx = verifChoice(tag+"_idx", 2) == 1
		s.idxUnique = tag == "t"
		s.pk = verifChoice(tag+"_pk", 2) == 1
		s.fk = verifChoice(tag+"_fk", 2) == 1
		return s
	}
	if group != 0 {
		goto Index
	}
	s.a.present = verifChoice(tag+"_a", 2) == 1
	if s.a.present {
		s.a.family = verifChoice(tag+"_a_family", 3)
		s.a.null = verifBool(tag + "_a_null")
		s.a.defForm = verifChoice(tag+"_a_def", 2) // none or a single-quoted literal (the normalized form)
		if s.a.defForm != 0 {
			s.a.defVal = verifString(tag+"_a_defv", 1)
			verifAssume(s.a.defVal[0] >= 'a' && s.a.defVal[0] <= 'z')
		}
		s.a.comment = verifChoice(tag+"_a_cmt", 2)
		if s.a.comment != 0 {
			s.a.cmtVal = verifString(tag+"_a_cmtv", 1)
			verifAssume(s.a.cmtVal[0] >= 'a' && s.a.cmtVal[0] <= 'z')
		}
	}
Index:
	if group != 1 {
		goto Rest
	}
	s.idx = verifChoice(tag+"_idx", 2) == 1
	if s.idx {
		s.idxUnique = verifBool(tag + "_idx_unique")
		s.idxDesc = verifBool(tag + "_idx_desc")
	}
	s.pk = verifChoice(tag+"_pk", 2) == 1
Rest:
	if group != 2 {
		return s
	}
	s.fk = verifChoice(tag+"_fk", 2) == 1
	if s.fk {
		s.fkDelete = verifChoice(tag+"_fk_delete", 5)
		s.fkCols = verifChoice(tag+"_fk_cols", 3)
	}
	s.chk = verifChoice(tag+"_chk", 2) == 1
	if s.chk {
		s.chkExpr = verifString(tag+"_chk_expr", 1)
		verifAssume(s.chkExpr[0] >= 'a' && s.chkExpr[0] <= 'z')
		s.chkAttr = verifBool(tag + "_chk_attr")
	}
	return s
}

func (s verifSide) table(sch *schema.Schema, ref *schema.Table, perm bool) *schema.Table {
	t := schema.NewTable("t").SetSchema(sch)
	b := schema.NewIntColumn("b", "integer")
	c2 := schema.NewIntColumn("c", "integer")
	t.AddColumns(b, c2)
	if s.a.present {
		var c *schema.Column
		switch s.a.family {
		case 0:
			c = schema.NewIntColumn("a", "integer")
		case 1:
			c = schema.NewStringColumn("a", "text")
		default:
			c = schema.NewFloatColumn("a", "double precision")
		}
		c.Type.Null = s.a.null
		switch s.a.defForm {
		case 1:
			c.SetDefault(&schema.Literal{V: "'" + s.a.defVal + "'"})
		case 2:
			c.SetDefault(&schema.Literal{V: "\"" + s.a.defVal + "\""})
		}
		if s.a.comment != 0 {
			c.SetComment(s.a.cmtVal)
		}
		if perm {
			// same objects, listed in another order
			t.Columns = append([]*schema.Column{c.SetDefault(c.Default)}, t.Columns...)
		} else {
			t.AddColumns(c)
		}
	}
	if s.idx {
		i := schema.NewIndex("i").SetUnique(s.idxUnique)
		i.AddParts(&schema.IndexPart{C: b, Desc: s.idxDesc})
		if s.idxX != 0 {
			i.AddParts(&schema.IndexPart{X: &schema.RawExpr{X: []string{"", "(b + 1)", "(b + 2)"}[s.idxX]}, Desc: s.idxXDesc})
		}
		if s.idxPred != 0 {
			i.AddAttrs(&IndexPredicate{P: []string{"", "(b > 0)", "(b > 1)"}[s.idxPred]})
		}
		if s.idxIncl != 0 {
			inc := &IndexInclude{Columns: []*schema.Column{verifColByName(t, "c")}}
			if s.idxIncl == 2 {
				inc.Columns = append(inc.Columns, verifColByName(t, "b"))
			}
			i.AddAttrs(inc)
		}
		if s.idxHash {
			i.AddAttrs(&IndexType{T: IndexTypeHash})
		}
		t.AddIndexes(i)
	}
	if s.pk {
		t.SetPrimaryKey(schema.NewPrimaryKey(b))
	}
	if s.fk {
		// a composite key: the order of its (child, parent) column pairs matters
		cols, refs := []*schema.Column{b, c2}, []*schema.Column{ref.Columns[0], ref.Columns[1]}
		switch s.fkCols {
		case 1:
			cols = []*schema.Column{c2, b}
		case 2:
			refs = []*schema.Column{ref.Columns[1], ref.Columns[0]}
		}
		t.AddForeignKeys(schema.NewForeignKey("f").AddColumns(cols...).SetRefTable(ref).AddRefColumns(refs...).SetOnDelete(verifActions[s.fkDelete]))
	}
	if s.chk {
		ck := schema.NewCheck().SetName("k").SetExpr(s.chkExpr)
		if s.chkAttr {
			ck.AddAttrs(&NoInherit{})
		}
		t.AddChecks(ck)
	}
	return t
}

type verifWant struct {
	what string
	kind schema.ChangeKind
}

// verifExpected is the independent list of elementary edits between the sides.
func verifExpected(f, t verifSide) []verifWant {
	var w []verifWant
	switch {
	case f.a.present && !t.a.present:
		w = append(w, verifWant{"drop-column", 0})
	case !f.a.present && t.a.present:
		w = append(w, verifWant{"add-column", 0})
	case f.a.present:
		var k schema.ChangeKind
		if f.a.null != t.a.null {
			k |= schema.ChangeNull
		}
		if f.a.family != t.a.family {
			k |= schema.ChangeType
		}
		if (f.a.defForm != 0) != (t.a.defForm != 0) || f.a.defForm != 0 && f.a.defVal != t.a.defVal {
			k |= schema.ChangeDefault
		}
		if (f.a.comment != 0) != (t.a.comment != 0) || f.a.comment != 0 && f.a.cmtVal != t.a.cmtVal {
			k |= schema.ChangeComment
		}
		if k != 0 {
			w = append(w, verifWant{"modify-column", k})
		}
	}
	switch {
	case f.idx && !t.idx:
		w = append(w, verifWant{"drop-index", 0})
	case !f.idx && t.idx:
		w = append(w, verifWant{"add-index", 0})
	case f.idx:
		var k schema.ChangeKind
		if f.idxUnique != t.idxUnique {
			k |= schema.ChangeUnique
		}
		if f.idxDesc != t.idxDesc {
			k |= schema.ChangeParts
		}
		if f.idxX != t.idxX || f.idxX != 0 && f.idxXDesc != t.idxXDesc {
			k |= schema.ChangeParts
		}
		if f.idxPred != t.idxPred || f.idxIncl != t.idxIncl || f.idxHash != t.idxHash {
			k |= schema.ChangeAttr
		}
		if k != 0 {
			w = append(w, verifWant{"modify-index", k})
		}
	}
	switch {
	case f.pk && !t.pk:
		w = append(w, verifWant{"drop-pk", 0})
	case !f.pk && t.pk:
		w = append(w, verifWant{"add-pk", 0})
	}
	switch {
	case f.fk && !t.fk:
		w = append(w, verifWant{"drop-fk", 0})
	case !f.fk && t.fk:
		w = append(w, verifWant{"add-fk", 0})
	case f.fk:
		fa, ta := f.fkDelete, t.fkDelete
		// unset means NO ACTION; RESTRICT is a different action
		if fa == 0 {
			fa = 1
		}
		if ta == 0 {
			ta = 1
		}
		var k schema.ChangeKind
		if fa != ta {
			k |= schema.ChangeDeleteAction
		}
		if (f.fkCols == 1) != (t.fkCols == 1) {
			k |= schema.ChangeColumn
		}
		if (f.fkCols == 2) != (t.fkCols == 2) {
			k |= schema.ChangeRefColumn
		}
		if k != 0 {
			w = append(w, verifWant{"modify-fk", k})
		}
	}
	switch {
	case f.chk && !t.chk:
		w = append(w, verifWant{"drop-check", 0})
	case !f.chk && t.chk:
		w = append(w, verifWant{"add-check", 0})
	case f.chk && (f.chkExpr != t.chkExpr || f.chkAttr != t.chkAttr):
		w = append(w, verifWant{"modify-check", 0})
	}
	switch {
	case f.strict && !t.strict:
		w = append(w, verifWant{"drop-attr", 0})
	case !f.strict && t.strict:
		w = append(w, verifWant{"add-attr", 0})
	}
	return w
}

func verifDescribe(c schema.Change) verifWant {
	switch c := c.(type) {
	case *schema.AddColumn:
		return verifWant{"add-column", 0}
	case *schema.DropColumn:
		return verifWant{"drop-column", 0}
	case *schema.ModifyColumn:
		return verifWant{"modify-column", c.Change}
	case *schema.AddIndex:
		return verifWant{"add-index", 0}
	case *schema.DropIndex:
		return verifWant{"drop-index", 0}
	case *schema.ModifyIndex:
		return verifWant{"modify-index", c.Change}
	case *schema.AddPrimaryKey:
		return verifWant{"add-pk", 0}
	case *schema.DropPrimaryKey:
		return verifWant{"drop-pk", 0}
	case *schema.ModifyPrimaryKey:
		return verifWant{"modify-pk", c.Change}
	case *schema.AddForeignKey:
		return verifWant{"add-fk", 0}
	case *schema.DropForeignKey:
		return verifWant{"drop-fk", 0}
	case *schema.ModifyForeignKey:
		return verifWant{"modify-fk", c.Change}
	case *schema.AddCheck:
		return verifWant{"add-check", 0}
	case *schema.DropCheck:
		return verifWant{"drop-check", 0}
	case *schema.ModifyCheck:
		return verifWant{"modify-check", 0}
	case *schema.AddAttr:
		return verifWant{"add-attr", 0}
	case *schema.DropAttr:
		return verifWant{"drop-attr", 0}
	}
	return verifWant{fmt.Sprintf("%T", c), 0}
}

var verifSkippable = []struct {
	what string
	c    schema.Change
}{
	{"drop-column", &schema.DropColumn{}}, {"drop-index", &schema.DropIndex{}}, {"drop-fk", &schema.DropForeignKey{}},
	{"modify-column", &schema.ModifyColumn{}}, {"add-index", &schema.AddIndex{}}, {"drop-pk", &schema.DropPrimaryKey{}},
	{"modify-index", &schema.ModifyIndex{}}, {"add-column", &schema.AddColumn{}},
}

func verifC02(group int, withSkip bool) {
	sch := schema.New("main")
	ref := schema.NewTable("r").SetSchema(sch).AddColumns(schema.NewIntColumn("id", "integer"), schema.NewIntColumn("id2", "integer"))
	fs, ts := verifSideOf("f", group), verifSideOf("t", group)
	from, to := fs.table(sch, ref, false), ts.table(sch, ref, group == 3 && verifChoice("permute", 2) == 1)
	// The CLI always diffs in normalized mode (cmdapi diffOptions).
	opts := []schema.DiffOption{schema.DiffNormalized()}
	skipped := map[string]bool{}
	if withSkip {
		var sk []schema.Change
		for _, s := range verifSkippable {
			if verifChoice("skip_"+s.what, 2) == 1 {
				sk = append(sk, s.c)
				skipped[s.what] = true
			}
		}
		opts = append(opts, schema.DiffSkipChanges(sk...))
	}
	changes, err := DefaultDiff.TableDiff(from, to, opts...)
	verifAssert(err == nil, "diff succeeds")
	want := verifExpected(fs, ts)
	var filtered []verifWant
	for _, w := range want {
		if !skipped[w.what] {
			filtered = append(filtered, w)
		}
	}
	want = filtered
	if len(want) == 0 {
		verifReach("no-change")
	} else {
		verifReach("changes")
	}
	var got []verifWant
	for _, c := range changes {
		got = append(got, verifDescribe(c))
	}
	for _, g := range got {
		verifAssert(!skipped[g.what], "a change kind disabled by the diff policy is never reported: "+g.what)
	}
	verifAssert(len(got) == len(want), "exactly one change per elementary edit, none for unedited elements")
	for _, w := range want {
		n := 0
		for _, g := range got {
			if g.what == w.what {
				n++
				verifAssert(g.kind == w.kind, "change kind flags are exact: "+w.what)
			}
		}
		verifAssert(n == 1, "every edit is reported exactly once: "+w.what)
	}
}

func VerifHarness_C02_postgres_col()     { verifC02(0, false) }
func VerifHarness_C02_postgres_idx()     { verifC02(1, false) }
func VerifHarness_C02_postgres_rest()    { verifC02(2, false) }
func VerifHarness_C02_postgres_pairs()   { verifC02(3, false) }
func VerifHarness_C02_postgres_idxattr() { verifC02(5, false) }
func VerifHarness_C02_postgres_idxexpr() { verifC02(6, false) }
func VerifHarness_C02_postgres_skip()    { verifC02(4, true) }

func verifColByName(t *schema.Table, name string) *schema.Column {
	c, ok := t.Column(name)
	if !ok {
		panic("no column " + name)
	}
	return c
}
