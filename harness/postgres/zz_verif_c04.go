package postgres

import (
	"context"
	"fmt"

	"ariga.io/atlas/sql/migrate"
	"ariga.io/atlas/sql/schema"
)

// C04: plans respect foreign-key dependencies for every reference graph.

const (
	verifRoleCreate = iota
	verifRoleDrop
	verifRoleAddFK  // kept table that gains its foreign keys
	verifRoleDropFK // kept table that loses its foreign keys
)

type verifEdge struct{ from, to int }

func verifC04(n int, roleMode int, plan func(context.Context, []schema.Change) (*migrate.Plan, error)) {
	sch := schema.New("s")
	tabs := make([]*schema.Table, n)
	roles := make([]int, n)
	for i := range tabs {
		tabs[i] = schema.NewTable(fmt.Sprintf("t%d", i)).SetSchema(sch).AddColumns(schema.NewIntColumn("id", "integer"), schema.NewIntColumn("r", "integer"))
		tabs[i].SetPrimaryKey(schema.NewPrimaryKey(tabs[i].Columns[0]))
		switch roleMode {
		case 0:
			roles[i] = verifChoice(fmt.Sprintf("role%d", i), 4)
		case 1:
			roles[i] = verifRoleCreate
		case 2:
			roles[i] = verifRoleDrop
		}
	}
	// edges (self loops included); structural: the executor forks per edge
	var edges []verifEdge
	for i := 0; i < n; i++ {
		for j := 0; j < n; j++ {
			if verifChoice(fmt.Sprintf("e%d_%d", i, j), 2) == 0 {
				continue
			}
			// an edge must make sense for the roles of its ends
			switch roles[i] {
			case verifRoleCreate, verifRoleAddFK:
				verifAssume(roles[j] != verifRoleDrop) // cannot reference a table that is going away
			case verifRoleDrop, verifRoleDropFK:
				verifAssume(roles[j] != verifRoleCreate) // an existing key cannot point at a table not yet there
			}
			edges = append(edges, verifEdge{i, j})
			fk := schema.NewForeignKey(fmt.Sprintf("fk_%d_%d", i, j)).SetTable(tabs[i]).AddColumns(tabs[i].Columns[1]).
				SetRefTable(tabs[j]).AddRefColumns(tabs[j].Columns[0])
			tabs[i].AddForeignKeys(fk)
		}
	}
	// the change set
	var changes []schema.Change
	for i, t := range tabs {
		switch roles[i] {
		case verifRoleCreate:
			changes = append(changes, &schema.AddTable{T: t})
		case verifRoleDrop:
			changes = append(changes, &schema.DropTable{T: t})
		case verifRoleAddFK:
			var cs []schema.Change
			for _, fk := range t.ForeignKeys {
				cs = append(cs, &schema.AddForeignKey{F: fk})
			}
			if len(cs) > 0 {
				changes = append(changes, &schema.ModifyTable{T: t, Changes: cs})
			}
		case verifRoleDropFK:
			var cs []schema.Change
			for _, fk := range t.ForeignKeys {
				cs = append(cs, &schema.DropForeignKey{F: fk})
			}
			if len(cs) > 0 {
				changes = append(changes, &schema.ModifyTable{T: t, Changes: cs})
			}
		}
	}
	if verifChoice("reversed", 2) == 1 {
		for a, b := 0, len(changes)-1; a < b; a, b = a+1, b-1 {
			changes[a], changes[b] = changes[b], changes[a]
		}
	}
	if len(changes) == 0 {
		return
	}
	p, err := plan(context.Background(), changes)
	verifAssert(err == nil, "planning never fails because of the reference graph")
	if err != nil {
		return
	}
	verifReach("planned")
	// ---- reference catalogue ----
	exists := map[string]bool{}
	live := map[string]string{} // fk symbol -> referenced table
	owner := map[string]string{}
	created := map[string]int{}
	droppedN := map[string]int{}
	for i, t := range tabs {
		if roles[i] == verifRoleDrop || roles[i] == verifRoleDropFK || roles[i] == verifRoleAddFK {
			exists[t.Name] = true
		}
		if roles[i] == verifRoleDrop || roles[i] == verifRoleDropFK {
			for _, fk := range t.ForeignKeys {
				live[fk.Symbol] = fk.RefTable.Name
				owner[fk.Symbol] = t.Name
			}
		}
	}
	var prev schema.Change
	for _, c := range p.Changes {
		if c.Source == nil || c.Source == prev {
			continue
		}
		prev = c.Source
		switch src := c.Source.(type) {
		case *schema.AddTable:
			verifAssert(!exists[src.T.Name], "a table is created only once")
			exists[src.T.Name] = true
			created[src.T.Name]++
			for _, fk := range src.T.ForeignKeys {
				verifAssert(exists[fk.RefTable.Name], "a table is created before a foreign key pointing at it is declared (inline)")
				live[fk.Symbol] = fk.RefTable.Name
				owner[fk.Symbol] = src.T.Name
			}
		case *schema.ModifyTable:
			verifAssert(exists[src.T.Name], "a modified table exists")
			for _, m := range src.Changes {
				switch m := m.(type) {
				case *schema.AddForeignKey:
					verifAssert(exists[m.F.RefTable.Name], "a table is created before a foreign key pointing at it is declared (alter)")
					live[m.F.Symbol] = m.F.RefTable.Name
					owner[m.F.Symbol] = src.T.Name
				case *schema.DropForeignKey:
					delete(live, m.F.Symbol)
				}
			}
		case *schema.DropTable:
			verifAssert(exists[src.T.Name], "a dropped table exists")
			for sym, ref := range live {
				if ref == src.T.Name && owner[sym] != src.T.Name {
					verifAssert(false, "a table is dropped only after every foreign key pointing at it is gone")
				}
			}
			for sym := range live {
				if owner[sym] == src.T.Name {
					delete(live, sym)
				}
			}
			exists[src.T.Name] = false
			droppedN[src.T.Name]++
		}
	}
	for i, t := range tabs {
		switch roles[i] {
		case verifRoleCreate:
			verifAssert(created[t.Name] == 1 && exists[t.Name], "every table of the change set is created exactly once")
		case verifRoleDrop:
			verifAssert(droppedN[t.Name] == 1 && !exists[t.Name], "every table of the change set is dropped exactly once")
		}
	}
	for _, e := range edges {
		sym := fmt.Sprintf("fk_%d_%d", e.from, e.to)
		switch roles[e.from] {
		case verifRoleCreate, verifRoleAddFK:
			verifAssert(live[sym] == tabs[e.to].Name, "every planned foreign key ends up declared")
		default:
			_, ok := live[sym]
			verifAssert(!ok, "every foreign key to remove ends up removed")
		}
	}
}

func verifPlanPG(ctx context.Context, cs []schema.Change) (*migrate.Plan, error) {
	return DefaultPlan.PlanChanges(ctx, "p", cs)
}

func VerifHarness_C04_postgres_n2()      { verifC04(2, 0, verifPlanPG) }
func VerifHarness_C04_postgres_n3()      { verifC04(3, 0, verifPlanPG) }
func VerifHarness_C04_postgres_create4() { verifC04(4, 1, verifPlanPG) }
func VerifHarness_C04_postgres_drop4()   { verifC04(4, 2, verifPlanPG) }
