package postgres

import (
	"context"
	"fmt"
	"sort"
	"strings"

	"ariga.io/atlas/sql/migrate"
	"ariga.io/atlas/sql/schema"
)

// C20 (planner half): the same change set yields byte-identical statements
// for every map iteration order; permuting the declaration order of the input
// changes at most reorders independent statements.

func verifC20Changes(shape int, order []int) []schema.Change {
	return verifC20ChangesNamed(shape, order, nil)
}

func verifC20ChangesNamed(shape int, order []int, names []string) []schema.Change {
	sch := schema.New("s")
	n := 3
	tabs := make([]*schema.Table, n)
	for i := range tabs {
		name := fmt.Sprintf("t%d", i)
		if names != nil {
			name = names[i]
		}
		tabs[i] = schema.NewTable(name).SetSchema(sch).AddColumns(schema.NewIntColumn("id", "integer"), schema.NewIntColumn("r", "integer"))
		tabs[i].SetPrimaryKey(schema.NewPrimaryKey(tabs[i].Columns[0]))
		tabs[i].AddIndexes(schema.NewIndex(fmt.Sprintf("i%d", i)).AddColumns(tabs[i].Columns[1]))
	}
	link := func(a, b int) {
		fk := schema.NewForeignKey(fmt.Sprintf("fk_%d_%d", a, b)).SetTable(tabs[a]).AddColumns(tabs[a].Columns[1]).SetRefTable(tabs[b]).AddRefColumns(tabs[b].Columns[0])
		tabs[a].AddForeignKeys(fk)
	}
	switch shape {
	case 0: // chain
		link(0, 1)
		link(1, 2)
	case 1: // cycle
		link(0, 1)
		link(1, 2)
		link(2, 0)
	case 2: // diamond-ish + self reference
		link(0, 1)
		link(0, 2)
		link(1, 1)
	case 3: // two independent dependents of one table
		link(0, 2)
		link(1, 2)
	}
	changes := make([]schema.Change, 0, n)
	for _, i := range order {
		changes = append(changes, &schema.AddTable{T: tabs[i]})
	}
	return changes
}

func verifPlanText(p *migrate.Plan) (string, []string) {
	var stmts []string
	for _, c := range p.Changes {
		stmts = append(stmts, c.Cmd)
		rs, _ := c.ReverseStmts()
		stmts = append(stmts, rs...)
	}
	full := strings.Join(stmts, "\n")
	sorted := append([]string(nil), stmts...)
	sort.Strings(sorted)
	return full, sorted
}

func VerifHarness_C20_postgres() {
	shape := verifChoice("shape", 4)
	ctx := context.Background()
	verifMapOrder(false)
	ref, err := DefaultPlan.PlanChanges(ctx, "p", verifC20Changes(shape, []int{0, 1, 2}))
	verifAssert(err == nil, "reference plan")
	refText, refSorted := verifPlanText(ref)
	orders := [][]int{{0, 1, 2}, {2, 1, 0}, {1, 2, 0}, {1, 0, 2}}
	oi := verifChoice("input-order", len(orders))
	verifMapOrder(true)
	got, err := DefaultPlan.PlanChanges(ctx, "p", verifC20Changes(shape, orders[oi]))
	verifMapOrder(false)
	verifAssert(err == nil, "plan under another iteration / declaration order")
	if err != nil {
		return
	}
	gotText, gotSorted := verifPlanText(got)
	verifReach("compared")
	verifObserve("plan", gotText)
	if oi == 0 {
		verifAssert(gotText == refText, "same input gives byte-identical statements for every map iteration order")
	}
	verifAssert(strings.Join(gotSorted, "\n") == strings.Join(refSorted, "\n"), "another declaration order changes at most the order of statements, never their content")
	verifAssert(got.Reversible == ref.Reversible && got.Transactional == ref.Transactional, "plan flags are stable")
}

// Names family: the three table names are one symbolic byte each over {a, A, b, B, _} (pairwise
// distinct): whatever the names are - including names differing only by letter case - the statements
// are byte-identical for every map iteration order.
func VerifHarness_C20_postgres_names() {
	shape := []int{3, 0, 2}[verifChoice("shape", 3)]
	names := make([]string, 3)
	for i := range names {
		names[i] = verifString(fmt.Sprintf("name%d", i), 1)
		c := names[i][0]
		verifAssume(verifOr(verifOr(c == 'a', c == 'A'), verifOr(verifOr(c == 'b', c == 'B'), c == '_')))
	}
	verifAssume(verifAnd(names[0] != names[1], verifAnd(names[0] != names[2], names[1] != names[2])))
	ctx := context.Background()
	verifMapOrder(false)
	ref, err := DefaultPlan.PlanChanges(ctx, "p", verifC20ChangesNamed(shape, []int{0, 1, 2}, names))
	verifAssert(err == nil, "reference plan")
	refText, _ := verifPlanText(ref)
	verifMapOrder(true)
	got, err := DefaultPlan.PlanChanges(ctx, "p", verifC20ChangesNamed(shape, []int{0, 1, 2}, names))
	verifMapOrder(false)
	verifAssert(err == nil, "plan under another iteration order")
	if err != nil {
		return
	}
	gotText, _ := verifPlanText(got)
	verifReach("compared")
	verifObserve("plan", gotText)
	verifAssert(gotText == refText, "same input gives byte-identical statements for every map iteration order, whatever the table names")
}

func VerifHarness_C20_postgres_scope() {
	mk := func() []schema.Change {
		var cs []schema.Change
		for _, n := range []string{"b", "c", "a"} {
			t := schema.NewTable("t").SetSchema(schema.New(n)).AddColumns(schema.NewIntColumn("id", "integer"))
			cs = append(cs, &schema.AddTable{T: t})
		}
		return cs
	}
	empty := ""
	opt := func(o *migrate.PlanOptions) { o.SchemaQualifier = &empty }
	verifMapOrder(false)
	_, ref := DefaultPlan.PlanChanges(context.Background(), "p", mk(), opt)
	verifMapOrder(true)
	_, got := DefaultPlan.PlanChanges(context.Background(), "p", mk(), opt)
	verifMapOrder(false)
	verifAssert(ref != nil && got != nil, "multi-schema change set is rejected")
	verifReach("compared")
	verifAssert(got.Error() == ref.Error(), "the rejection message is identical for every map iteration order")
}
