package postgres

import (
	"context"
	"fmt"
	"strings"

	"ariga.io/atlas/sql/migrate"
	"ariga.io/atlas/sql/schema"
	"ariga.io/atlas/sql/sqltool"
)

// C07: what is planned is what is executed. User-controlled strings (table
// and column names, default literal, comment) are symbolic; the plan is
// written with a directory formatter and read back with the dialect's
// statement scanner.

// verifSpecial reports (symbolically) whether s holds a character of the
// listed-finding region: the identifier quote of the dialect or a backslash.
func verifSpecial(s string, chars string) bool {
	r := false
	for i := 0; i < len(s); i++ {
		for j := 0; j < len(chars); j++ {
			r = verifOr(r, s[i] == chars[j])
		}
	}
	return r
}

// verifC07: nameLen / textLen symbolic bytes in the identifiers / in the default and
// comment texts (0 = concrete); fmtSet 0 = Atlas default format, 1 = the
// golang-migrate / flyway / liquibase formats (plain files), 2 = goose / dbmate (own readers).
func verifC07(nameLen, textLen, fmtSet int, mode string) {
	verifC07x(nameLen, nameLen, textLen, fmtSet, mode, false)
}

// verifC07x: separate lengths for the table and the column name; quoteOnly
// restricts the symbolic name bytes to the identifier quote character and one
// letter (long names made of quotes are what doubling logic must get right).
func verifC07x(tableLen, colLen, textLen, fmtSet int, mode string, quoteOnly bool) {
	tname := "t" + verifString("tn", tableLen)
	cname := "c" + verifString("cn", colLen)
	if quoteOnly {
		for _, n := range []string{tname, cname} {
			for i := 1; i < len(n); i++ {
				verifAssume(verifOr(n[i] == '"', n[i] == 'a'))
			}
		}
	}
	def := "d" + verifString("def", textLen)
	cmt := "k" + verifString("cmt", textLen)
	// Region of the listed findings: identifiers holding the dialect's quote
	// character (or a backslash where the scanner treats it as an escape).
	special := verifOr(verifSpecial(tname, "\"\\"), verifSpecial(cname, "\"\\"))
	// Second region: the goose / dbmate readers scan with the generic options, so
	// texts needing the dialect's escape rules (quotes, backslashes) are misread.
	textSpecial := verifOr(verifSpecial(def, "\"\\'"), verifSpecial(cmt, "\"\\'"))
	// Third region (listed finding C07-foreign-reader-multiline): the goose / dbmate readers
	// work line by line (bufio.ScanLines, trailing blanks trimmed, a line ending in ';' ends the
	// statement), so a literal with a line break that follows white space or a semicolon is not
	// read back verbatim. The region is exactly that shape.
	multiline := verifOr(verifBrokenLine(def), verifBrokenLine(cmt))
	if fmtSet == 2 {
		switch {
		case mode == "witness-multiline":
			verifAssume(multiline)
		case verifKnown("C07-foreign-reader-multiline"):
			verifAssume(!multiline)
		}
	}
	switch mode {
	case "main":
		if verifKnown("C07-postgres-ident-quote") {
			verifAssume(!special)
		}
		if fmtSet == 2 && verifKnown("C07-postgres-foreign-reader-escapes") {
			verifAssume(!textSpecial)
		}
	case "witness-ident":
		verifAssume(special)
	case "witness-reader":
		verifAssume(!special)
		verifAssume(textSpecial)
	}
	sch := schema.New("main")
	t := schema.NewTable(tname).SetSchema(sch)
	id := schema.NewIntColumn("id", "integer")
	c := schema.NewStringColumn(cname, "text")
	// the default as an HCL document gives it: the raw text, quoted by the planner
	c.SetDefault(&schema.Literal{V: def})
	c.SetComment(cmt)
	t.AddColumns(id, c).SetPrimaryKey(schema.NewPrimaryKey(id))
	t.AddIndexes(schema.NewIndex("i" + tname).AddColumns(c))
	empty := ""
	plan, err := DefaultPlan.PlanChanges(context.Background(), "n", []schema.Change{&schema.AddTable{T: t}}, func(o *migrate.PlanOptions) { o.SchemaQualifier = &empty })
	verifAssert(err == nil, "the table is planned")
	if err != nil {
		return
	}
	plan.Version = "1"
	fmts := []migrate.Formatter{migrate.DefaultFormatter, sqltool.GolangMigrateFormatter, sqltool.GooseFormatter, sqltool.DBMateFormatter, sqltool.FlywayFormatter, sqltool.LiquibaseFormatter}
	fi := 0
	switch fmtSet {
	case 1:
		fi = []int{1, 4, 5}[verifChoice("formatter", 3)]
	case 2:
		fi = []int{2, 3}[verifChoice("formatter", 2)]
	}
	files, err := fmts[fi].Format(plan)
	verifAssert(err == nil && len(files) >= 1, "the plan is written")
	if err != nil || len(files) == 0 {
		return
	}
	var f migrate.File = migrate.NewLocalFile(files[0].Name(), files[0].Bytes())
	switch fi {
	case 2:
		f = &sqltool.GooseFile{LocalFile: f.(*migrate.LocalFile)}
	case 3:
		f = &sqltool.DBMateFile{LocalFile: f.(*migrate.LocalFile)}
	}
	if fi != 5 { // the Liquibase changeset id carries the current time
		verifObserve("file", string(files[0].Bytes()))
	}
	stmts, err := migrate.FileStmts(&Driver{}, f)
	if err != nil {
		verifReach("scan-error")
		verifAssert(false, "the written file is read back without error")
		return
	}
	verifReach("read")
	verifAssert(len(stmts) == len(plan.Changes), "same number of statements as planned")
	for i := range stmts {
		if i < len(plan.Changes) {
			got := strings.TrimSuffix(stmts[i], ";")
			verifAssert(got == plan.Changes[i].Cmd, fmt.Sprintf("statement %d read back equals the planned command", i))
		}
	}
}

func VerifHarness_C07_postgres_atlas()             { verifC07(1, 1, 0, "main") }
func VerifHarness_C07_postgres_atlas_names2()      { verifC07(2, 0, 0, "main") }
func VerifHarness_C07_postgres_atlas_names2t()     { verifC07x(2, 0, 0, 0, "main", false) }
func VerifHarness_C07_postgres_atlas_names2c()     { verifC07x(0, 2, 0, 0, "main", false) }
func VerifHarness_C07_postgres_atlas_texts2()      { verifC07(0, 2, 0, "main") }
func VerifHarness_C07_postgres_atlas_q3()          { verifC07x(3, 1, 0, 0, "main", true) }
func VerifHarness_C07_postgres_atlas_n1()          { verifC07(1, 0, 0, "main") }
func VerifHarness_C07_postgres_atlas_t1()          { verifC07(0, 1, 0, "main") }
func VerifHarness_C07_postgres_plain()             { verifC07(0, 1, 1, "main") }
func VerifHarness_C07_postgres_foreign()           { verifC07(0, 1, 2, "main") }
func VerifHarness_C07_postgres_foreign2()          { verifC07(0, 2, 2, "main") }
func VerifHarness_C07_postgres_witness_multiline() { verifC07(0, 2, 2, "witness-multiline") }
func VerifHarness_C07_postgres_witness_ident()     { verifC07(1, 0, 0, "witness-ident") }
func VerifHarness_C07_postgres_witness_reader()    { verifC07(0, 1, 2, "witness-reader") }

// verifBrokenLine: the text has a line break directly after white space or a semicolon.
func verifBrokenLine(s string) bool {
	r := false
	for i := 1; i < len(s); i++ {
		p := s[i-1]
		ws := verifOr(verifOr(p == ' ', p == '\t'), verifOr(verifOr(p == '\r', p == '\n'), verifOr(p == '\v', p == '\f')))
		r = verifOr(r, verifAnd(s[i] == '\n', verifOr(ws, p == ';')))
	}
	return r
}
