// Harness runtime shim. Under symgo every verif* call is intercepted by the
// engine; natively the functions read the solver's model from $VERIF_REPLAY.
package migratelint

import (
	verifjson "encoding/json"
	veriffmt "fmt"
	verifos "os"
	verifstrings "strings"
)

type verifStop struct{ msg string }

var verifState struct {
	loaded  bool
	Model   map[string]uint64 `json:"model"`
	Choices map[string]uint64 `json:"choices"`
}

func verifLoad() {
	if verifState.loaded {
		return
	}
	verifState.loaded = true
	if p := verifos.Getenv("VERIF_REPLAY"); p != "" {
		data, err := verifos.ReadFile(p)
		if err != nil {
			panic(err)
		}
		if err := verifjson.Unmarshal(data, &verifState); err != nil {
			panic(err)
		}
	}
}

func verifBool(name string) bool { verifLoad(); return verifState.Model[name] != 0 }
func verifByte(name string) byte { verifLoad(); return byte(verifState.Model[name]) }
func verifInt(name string, lo, hi int) int {
	verifLoad()
	if lo == hi {
		return lo
	}
	v := int(int64(verifState.Model[name]))
	if v < lo || v > hi {
		veriffmt.Println("VERIF-ASSUME-FAIL: range of", name)
		panic(verifStop{"assume"})
	}
	return v
}
func verifBytes(name string, n int) []byte {
	verifLoad()
	out := make([]byte, n)
	for i := range out {
		out[i] = byte(verifState.Model[veriffmt.Sprintf("%s_%d", name, i)])
	}
	return out
}
func verifString(name string, n int) string { return string(verifBytes(name, n)) }
func verifChoice(name string, n int) int {
	verifLoad()
	return int(verifState.Choices[name])
}
func verifAssume(c bool) {
	if !c {
		veriffmt.Println("VERIF-ASSUME-FAIL")
		panic(verifStop{"assume"})
	}
}
// verifAssert records a failed assertion and carries on, like the engine does
// (which continues under the assumption that the assertion holds), so that a
// later assertion reported by the engine can be reproduced too.
func verifAssert(c bool, msg string) {
	if !c {
		veriffmt.Println("VERIF-ASSERT-FAIL: " + msg)
		verifFailures++
	}
}

var verifFailures int
func verifFail(msg string)       { verifAssert(false, msg) }
func verifReach(label string)    {}
func verifSymbolic() bool        { return false }
func verifConcrete(s string) string { return s }
func verifMapOrder(on bool)      {}
// verifKnown reports whether the finding with this key is listed as known in
// /verif/known_findings.jsonl (the main check then excludes exactly its region).
func verifKnown(key string) bool {
	for _, k := range verifstrings.Split(verifos.Getenv("VERIF_KNOWN"), ",") {
		if k == key {
			return true
		}
	}
	return false
}
func verifAnd(a, b bool) bool     { return a && b }
func verifOr(a, b bool) bool      { return a || b }
func verifImplies(a, b bool) bool { return !a || b }
func verifObserve(label string, v any) {
	veriffmt.Printf("VERIF-OBSERVE %s=%q\n", label, veriffmt.Sprint(v))
}
