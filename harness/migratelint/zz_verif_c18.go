package migratelint

import (
	"context"
	"fmt"

	"ariga.io/atlas/sql/migrate"
	"ariga.io/atlas/sql/sqlcheck"
	"ariga.io/atlas/sql/sqlcheck/destructive"
	"ariga.io/atlas/sql/sqlclient"
	"ariga.io/atlas/sql/sqlite"
)

// C18 (derivation of changes): `migrate lint` derives the changes of each
// statement by executing the file on the dev database statement by statement
// (DevLoader.LoadChanges). For a new file on top of already linted ones - short
// or long - a statement that drops a table which existed before the file is
// reported at that statement's position, also when the table is created again
// later in the file; additive statements are not reported.
func verifC18Lint() {
	nfill := []int{0, 1, 9, 10, 11}[verifChoice("fill", 5)] // additive statements before the drop
	recreate := verifBool("recreate")
	dropExisting := verifBool("drop-existing")
	base := []migrate.File{migrate.NewLocalFile("1_base.sql", []byte("CREATE TABLE t (id int);\n"))}
	text := ""
	for k := 0; k < nfill; k++ {
		text += fmt.Sprintf("CREATE TABLE a%d (id int);\n", k)
	}
	dropPos := len(text)
	if dropExisting {
		text += "DROP TABLE t;\n"
		if recreate {
			text += "CREATE TABLE t (id int);\n"
		}
	} else {
		text += "CREATE TABLE z (id int);\n"
	}
	files := []migrate.File{migrate.NewLocalFile("2_new.sql", []byte(text))}
	dev := &sqlite.VerifDev{FailAt: -1}
	drv := verifLintDrv{sqlite.VerifDevDriver(dev)}
	d := &DevLoader{Dev: &sqlclient.Client{Name: "verif", URL: &sqlclient.URL{Schema: "main"}, Driver: drv}}
	diff, err := d.LoadChanges(context.Background(), base, files)
	verifAssert(err == nil && diff != nil && len(diff.Files) == 1, "the file is loaded")
	if err != nil || diff == nil || len(diff.Files) != 1 {
		return
	}
	verifAssert(dev.Tables == 0, "the dev database is handed back empty")
	az, err := destructive.New(nil)
	verifAssert(err == nil, "analyzer")
	type diag struct {
		code string
		pos  int
	}
	var got []diag
	err = az.Analyze(context.Background(), &sqlcheck.Pass{
		File: diff.Files[0],
		Dev:  d.Dev,
		Reporter: sqlcheck.ReportWriterFunc(func(r sqlcheck.Report) {
			for _, x := range r.Diagnostics {
				got = append(got, diag{x.Code, x.Pos})
			}
		}),
	})
	if dropExisting {
		verifReach("destructive")
		verifAssert(err != nil, "a file that drops an existing table fails the lint")
		verifAssert(len(got) == 1 && got[0].code == "DS102" && got[0].pos == dropPos, "the drop is reported once, at the position of the DROP statement")
	} else {
		verifReach("additive")
		verifAssert(err == nil && len(got) == 0, "a purely additive file is not reported")
	}
}

func VerifHarness_C18_lint() { verifC18Lint() }

// Window family: a lint window of two new files (with or without base files). A table dropped by
// the second file is reported at the DROP statement whether it was created by the base or by the
// first file of the same window; the first file (additive) is not reported.
func verifC18Window() {
	withBase := verifBool("with-base")
	target := verifChoice("drop", 3) // 0 nothing (additive), 1 table u of the first window file, 2 table t of the base / first statement
	var base []migrate.File
	first := "CREATE TABLE u (id int);\n"
	if withBase {
		base = []migrate.File{migrate.NewLocalFile("1_base.sql", []byte("CREATE TABLE t (id int);\n"))}
	} else {
		first = "CREATE TABLE t (id int);\n" + first
	}
	text := "CREATE TABLE a (id int);\n"
	dropPos := len(text)
	switch target {
	case 0:
		text += "CREATE TABLE z (id int);\n"
	case 1:
		text += "DROP TABLE u;\n"
	case 2:
		text += "DROP TABLE t;\n"
	}
	files := []migrate.File{migrate.NewLocalFile("2_new.sql", []byte(first)), migrate.NewLocalFile("3_new.sql", []byte(text))}
	dev := &sqlite.VerifDev{FailAt: -1}
	drv := verifLintDrv{sqlite.VerifDevDriver(dev)}
	d := &DevLoader{Dev: &sqlclient.Client{Name: "verif", URL: &sqlclient.URL{Schema: "main"}, Driver: drv}}
	diff, err := d.LoadChanges(context.Background(), base, files)
	verifAssert(err == nil && diff != nil && len(diff.Files) == 2, "the files are loaded")
	if err != nil || diff == nil || len(diff.Files) != 2 {
		return
	}
	verifAssert(dev.Tables == 0, "the dev database is handed back empty")
	az, err := destructive.New(nil)
	verifAssert(err == nil, "analyzer")
	for i, f := range diff.Files {
		type diag struct {
			code string
			pos  int
		}
		var got []diag
		err = az.Analyze(context.Background(), &sqlcheck.Pass{
			File: f,
			Dev:  d.Dev,
			Reporter: sqlcheck.ReportWriterFunc(func(r sqlcheck.Report) {
				for _, x := range r.Diagnostics {
					got = append(got, diag{x.Code, x.Pos})
				}
			}),
		})
		if i == 1 && target != 0 {
			verifReach("destructive")
			verifAssert(err != nil, "a file that drops a table existing before it fails the lint")
			verifAssert(len(got) == 1 && got[0].code == "DS102" && got[0].pos == dropPos, "the drop is reported once, at the position of the DROP statement")
		} else {
			verifReach("additive")
			verifAssert(err == nil && len(got) == 0, "a purely additive file is not reported")
		}
	}
}

func VerifHarness_C18_window() { verifC18Window() }
