package migratelint

import (
	"context"
	"fmt"

	"ariga.io/atlas/sql/migrate"
	"ariga.io/atlas/sql/sqlcheck"
	"ariga.io/atlas/sql/sqlcheck/destructive"
	"ariga.io/atlas/sql/sqlclient"
	"ariga.io/atlas/sql/sqlite"
)

// C18 (derivation of changes): `migrate lint` derives the changes of each
// statement by executing the file on the dev database statement by statement
// (DevLoader.LoadChanges). For a new file on top of already linted ones - short
// or long - a statement that drops a table which existed before the file is
// reported at that statement's position, also when the table is created again
// later in the file; additive statements are not reported.
func verifC18Lint() {
	nfill := []int{0, 1, 9, 10, 11}[verifChoice("fill", 5)] // additive statements before the drop
	recreate := verifBool("recreate")
	dropExisting := verifBool("drop-existing")
	base := []migrate.File{migrate.NewLocalFile("1_base.sql", []byte("CREATE TABLE t (id int);\n"))}
	text := ""
	for k := 0; k < nfill; k++ {
		text += fmt.Sprintf("CREATE TABLE a%d (id int);\n", k)
	}
	dropPos := len(text)
	if dropExisting {
		text += "DROP TABLE t;\n"
		if recreate {
			text += "CREATE TABLE t (id int);\n"
		}
	} else {
		text += "CREATE TABLE z (id int);\n"
	}
	files := []migrate.File{migrate.NewLocalFile("2_new.sql", []byte(text))}
	dev := &sqlite.VerifDev{FailAt: -1}
	drv := verifLintDrv{sqlite.VerifDevDriver(dev)}
	d := &DevLoader{Dev: &sqlclient.Client{Name: "verif", URL: &sqlclient.URL{Schema: "main"}, Driver: drv}}
	diff, err := d.LoadChanges(context.Background(), base, files)
	verifAssert(err == nil && diff != nil && len(diff.Files) == 1, "the file is loaded")
	if err != nil || diff == nil || len(diff.Files) != 1 {
		return
	}
	verifAssert(dev.Tables == 0, "the dev database is handed back empty")
	az, err := destructive.New(nil)
	verifAssert(err == nil, "analyzer")
	type diag struct {
		code string
		pos  int
	}
	var got []diag
	err = az.Analyze(context.Background(), &sqlcheck.Pass{
		File: diff.Files[0],
		Dev:  d.Dev,
		Reporter: sqlcheck.ReportWriterFunc(func(r sqlcheck.Report) {
			for _, x := range r.Diagnostics {
				got = append(got, diag{x.Code, x.Pos})
			}
		}),
	})
	if dropExisting {
		verifReach("destructive")
		verifAssert(err != nil, "a file that drops an existing table fails the lint")
		verifAssert(len(got) == 1 && got[0].code == "DS102" && got[0].pos == dropPos, "the drop is reported once, at the position of the DROP statement")
	} else {
		verifReach("additive")
		verifAssert(err == nil && len(got) == 0, "a purely additive file is not reported")
	}
}

func VerifHarness_C18_lint() { verifC18Lint() }
