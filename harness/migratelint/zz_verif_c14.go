package migratelint

import (
	"context"
	"errors"
	"fmt"
	"time"

	"ariga.io/atlas/sql/migrate"
	"ariga.io/atlas/sql/schema"
	"ariga.io/atlas/sql/sqlclient"
	"ariga.io/atlas/sql/sqlite"
)

// C14 (migrate lint): DevLoader.LoadChanges replays base and new files on the
// dev database (statement by statement, checkpoints after a restore). Whatever
// fails on the way - a statement, an inspection, a restore - the dev database
// is handed back empty, and nothing runs on it after the final restore started.

type verifLintDrv struct{ *sqlite.Driver }

// the real SQLite lock is a file lock in the OS temp directory: not part of this property
func (verifLintDrv) Lock(context.Context, string, time.Duration) (schema.UnlockFunc, error) {
	return func() error { return nil }, nil
}

func verifC14Lint(maxFiles int) {
	nbase := verifChoice("base", 2)           // 0..1 files already linted (the base)
	nf := verifChoice("files", maxFiles) + 1  // 1..maxFiles new files
	ck := verifChoice("checkpoint", nf+1) - 1 // index of a checkpoint among the new files, -1 none
	badStmt := verifChoice("bad", 3)          // 0 none, 1 first, 2 second statement of the last file is invalid SQL
	mk := func(i int, checkpoint bool, bad int) migrate.File {
		text := ""
		if checkpoint {
			text = "-- atlas:checkpoint\n\n"
		}
		s1, s2 := fmt.Sprintf("CREATE TABLE t%d (id int);\n", i), fmt.Sprintf("CREATE TABLE u%d (id int);\n", i)
		switch bad {
		case 1:
			s1 = "CREATE INDEX i ON nosuch (id);\n"
		case 2:
			s2 = "CREATE INDEX i ON nosuch (id);\n"
		}
		return migrate.NewLocalFile(fmt.Sprintf("%d_f.sql", i+1), []byte(text+s1+s2))
	}
	var base, files []migrate.File
	for i := 0; i < nbase; i++ {
		base = append(base, mk(i, false, 0))
	}
	for i := 0; i < nf; i++ {
		bad := 0
		if i == nf-1 {
			bad = badStmt
		}
		files = append(files, mk(nbase+i, i == ck, bad))
	}
	dev := &sqlite.VerifDev{FailAt: verifInt("failAt", -1, 40)}
	drv := verifLintDrv{sqlite.VerifDevDriver(dev)}
	d := &DevLoader{Dev: &sqlclient.Client{Name: "verif", URL: &sqlclient.URL{Schema: "main"}, Driver: drv}}
	_, err := d.LoadChanges(context.Background(), base, files)
	if err == nil {
		verifReach("loaded")
	} else {
		verifReach("failed")
	}
	if ck >= 0 {
		verifReach("checkpoint")
	}
	if len(dev.Tried) == 0 {
		verifAssert(dev.Tables == 0, "dev database still empty")
		return
	}
	restoreStarted := -1
	for i, q := range dev.Tried {
		if q == sqlite.VerifRestoreStmts[0] {
			restoreStarted = i
		}
	}
	verifAssert(restoreStarted >= 0, "the dev database is restored on every exit path")
	if restoreStarted < 0 {
		return
	}
	tail := dev.Tried[restoreStarted:]
	for i, q := range tail {
		verifAssert(i < len(sqlite.VerifRestoreStmts) && q == sqlite.VerifRestoreStmts[i], "nothing runs on the dev database after the final restore started")
	}
	// did the final restore complete?
	done := 0
	for _, q := range dev.Log[len(dev.Log)-min(len(dev.Log), len(tail)):] {
		for _, r := range sqlite.VerifRestoreStmts {
			if q == r {
				done++
			}
		}
	}
	if len(tail) == len(sqlite.VerifRestoreStmts) && done == len(sqlite.VerifRestoreStmts) {
		verifReach("restored")
		verifAssert(dev.Tables == 0, "the dev database is handed back empty")
	} else {
		verifReach("restore-failed")
		verifAssert(err != nil && !errors.Is(err, nil), "a failing restore is not swallowed")
	}
}

func VerifHarness_C14_lint()  { verifC14Lint(2) }
func VerifHarness_C14_lint3() { verifC14Lint(3) }
