package migratelint

import (
	"ariga.io/atlas/sql/migrate"
	"ariga.io/atlas/sql/sqlcheck"
)

// C08 (line mapping): the position of every statement the scanner reports maps,
// through the lint report's Line, to the line of the file on which the statement
// text starts - for every file content over line breaks of both conventions.
func verifC08Lines(n int) {
	raw := verifString("b", n)
	for i := 0; i < n; i++ {
		c := raw[i]
		verifAssume(verifOr(verifOr(c == '\r', c == '\n'), verifOr(verifOr(c == ';', c == 'a'), verifOr(c == ' ', c == '-'))))
	}
	text := "A;\r\n" + raw + "\nB;\n"
	f := migrate.NewLocalFile("1.sql", []byte(text))
	stmts, err := f.StmtDecls()
	if err != nil {
		verifReach("scan-error")
		return
	}
	verifReach("scanned")
	rep := NewFileReport(&sqlcheck.File{File: f})
	for _, s := range stmts {
		want := 1
		for i := 0; i < s.Pos && i < len(text); i++ {
			if text[i] == '\n' {
				want++
			}
		}
		verifAssert(s.Pos <= len(text), "a reported position lies inside the file")
		verifAssert(rep.Line(s.Pos) == want, "a statement's position maps to the line of the file it starts on")
	}
}

func VerifHarness_C08_lines3() { verifC08Lines(3) }
func VerifHarness_C08_lines4() { verifC08Lines(4) }
