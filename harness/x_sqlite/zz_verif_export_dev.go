package sqlite

import (
	"context"
	"database/sql"
	"errors"
	"fmt"
	"strings"

	"ariga.io/atlas/sql/internal/sqlx"
	"ariga.io/atlas/sql/schema"
)

// Export shim for harnesses outside this package (overlaid; never part of a
// normal build): a real sqlite.Driver (real Snapshot / CheckClean / restore,
// real differ and planner) on top of a modelled dev database that only counts
// its user tables and can fail at a chosen operation.

var ErrVerifDev = errors.New("verif: injected dev database failure")

type VerifDev struct {
	Tables int      // number of user tables
	Names  []string // their names, in creation order (statements "CREATE TABLE <name> ..." / "DROP TABLE <name>")
	Ops    int
	FailAt int
	Log    []string // statements that took effect
	Tried  []string // statements attempted (including the failing one)
}

func (d *VerifDev) step() bool {
	op := d.Ops
	d.Ops++
	return op == d.FailAt
}

type verifXDevExec struct{ d *VerifDev }

func (e verifXDevExec) ExecContext(_ context.Context, q string, _ ...any) (sql.Result, error) {
	e.d.Tried = append(e.d.Tried, q)
	if e.d.step() {
		return nil, ErrVerifDev
	}
	if strings.Contains(q, "nosuch") {
		return nil, errors.New("verif: no such table")
	}
	e.d.Log = append(e.d.Log, q)
	switch {
	case strings.HasPrefix(q, "CREATE TABLE"):
		e.d.Tables++
		e.d.Names = append(e.d.Names, verifXTableName(q[len("CREATE TABLE"):]))
	case strings.HasPrefix(q, "DROP TABLE"):
		name := verifXTableName(q[len("DROP TABLE"):])
		for k, n := range e.d.Names {
			if n == name {
				e.d.Names = append(e.d.Names[:k:k], e.d.Names[k+1:]...)
				e.d.Tables--
				break
			}
		}
	case strings.HasPrefix(q, "DELETE FROM sqlite_master"):
		e.d.Tables, e.d.Names = 0, nil
	}
	return nil, nil
}

func (e verifXDevExec) QueryContext(context.Context, string, ...any) (*sql.Rows, error) {
	return nil, errors.New("verif: queries are answered by the inspector model")
}

type verifXDevInspect struct {
	schema.Inspector
	d *VerifDev
}

func (i verifXDevInspect) realm() *schema.Realm {
	s := schema.New(mainFile)
	for k := 0; k < i.d.Tables; k++ {
		name := fmt.Sprintf("x%d", k)
		if k < len(i.d.Names) && i.d.Names[k] != "" {
			name = i.d.Names[k]
		}
		s.AddTables(schema.NewTable(name).AddColumns(schema.NewIntColumn("id", "integer")))
	}
	return schema.NewRealm(s)
}

func (i verifXDevInspect) InspectRealm(context.Context, *schema.InspectRealmOption) (*schema.Realm, error) {
	if i.d.step() {
		return nil, ErrVerifDev
	}
	return i.realm(), nil
}

func (i verifXDevInspect) InspectSchema(context.Context, string, *schema.InspectOptions) (*schema.Schema, error) {
	if i.d.step() {
		return nil, ErrVerifDev
	}
	return i.realm().Schemas[0], nil
}

func verifXTableName(rest string) string {
	rest = strings.TrimSpace(rest)
	if k := strings.IndexAny(rest, " (;"); k >= 0 {
		rest = rest[:k]
	}
	return strings.Trim(rest, "`\"")
}

// VerifDevDriver returns the real driver over the modelled database.
func VerifDevDriver(d *VerifDev) *Driver {
	c := &conn{ExecQuerier: verifXDevExec{d}}
	return &Driver{conn: c, Differ: &sqlx.Diff{DiffDriver: &diff{}}, Inspector: verifXDevInspect{d: d}, PlanApplier: &planApply{c}}
}

// VerifRestoreStmts is what the real restore function executes.
var VerifRestoreStmts = []string{
	"PRAGMA writable_schema = 1;",
	"DELETE FROM sqlite_master WHERE type IN ('table', 'view', 'index', 'trigger');",
	"PRAGMA writable_schema = 0;",
	"VACUUM;",
}
