package migrate

import (
	"context"
	"errors"
	"fmt"
)

// C12: a file partially applied (k of m statements) is edited to n
// statements; the next Execute must refuse iff the applied prefix changed.
func verifC12(maxM, maxN, stmtLen int, rerun bool) { verifC12src(maxM, maxN, stmtLen, rerun, false) }

// verifC12Sums: statement texts whose recorded hashes (base64 of the real SHA-256, computed by the
// engine for concrete texts) begin with each character of the "h1:" prefix the revision stores them
// under, or with none of them: stripping the prefix must not eat into the hash.
var verifC12Sums = []string{"s0", "s16", "s53", "s93", "s80"} // digests begin with "7", "h", "1", "hl", "1S"

func verifC12src(maxM, maxN, stmtLen int, rerun, concrete bool) {
	m := verifChoice("m", maxM-1) + 2 // 2..maxM old statements
	n := verifChoice("n", maxN+1)     // 0..maxN new statements
	k := verifChoice("k", m)          // 0..m-1 applied before the failure
	old := make([]string, m)
	cur := make([]string, n)
	for i := range old {
		if concrete {
			old[i] = verifC12Sums[verifChoice(fmt.Sprintf("o%d", i), len(verifC12Sums))]
			continue
		}
		old[i] = verifString(fmt.Sprintf("o%d", i), stmtLen)
	}
	for i := range cur {
		if concrete {
			// the same statement as before (where there was one) or another one
			cur[i] = fmt.Sprintf("y%d", i)
			if i < m && verifChoice(fmt.Sprintf("t%d", i), 2) == 0 {
				cur[i] = old[i]
			}
			continue
		}
		cur[i] = verifString(fmt.Sprintf("t%d", i), stmtLen)
	}
	ctx := context.Background()
	ops := 0
	rrw := &vRRW{ops: &ops, failAt: -1}
	// Run 1: fails at statement k.
	f1 := &vFile{name: "1_a.sql", version: "1", desc: "a", stmts: old}
	d1 := &vDriver{ops: &ops, failAt: k}
	ex1, err := NewExecutor(d1, &vDir{files: []File{f1}, realHash: true}, rrw)
	verifAssert(err == nil, "executor 1")
	err = ex1.Execute(ctx, f1)
	var see *StmtExecError
	verifAssert(errors.As(err, &see), "run 1 fails with a statement error")
	verifAssert(len(d1.executed) == k, "run 1 executed k statements")
	verifAssert(len(rrw.revs) == 1 && rrw.revs[0].Applied == k && rrw.revs[0].Total == m, "run 1 recorded partial progress")
	before := copyRev(rrw.revs[0])
	// Run 2: edited file.
	f2 := &vFile{name: "1_a.sql", version: "1", desc: "a", stmts: cur}
	ops = 0
	d2 := &vDriver{ops: &ops, failAt: -1}
	ex2, err := NewExecutor(d2, &vDir{files: []File{f2}, realHash: true}, rrw)
	verifAssert(err == nil, "executor 2")
	err = ex2.Execute(ctx, f2)
	// Oracle: did the applied prefix change?
	same := n >= k
	if same {
		for i := 0; i < k; i++ {
			same = verifAnd(same, old[i] == cur[i])
		}
	}
	var hce HistoryChangedError
	isHCE := errors.As(err, &hce)
	if same {
		verifReach("resume")
		verifAssert(err == nil, "unchanged applied prefix: run resumes without error")
		verifAssert(len(d2.executed) == n-k, "resume executes exactly the new tail")
		for i := range d2.executed {
			verifAssert(d2.executed[i] == cur[k+i], "resume executes the new tail in order")
		}
	} else {
		verifReach("refuse")
		verifAssert(isHCE, "changed applied prefix: history-changed error")
		verifAssert(len(d2.executed) == 0, "refusal executes no statement")
		after := rrw.revs[0]
		verifAssert(after.Applied == before.Applied && after.Total == before.Total &&
			len(after.PartialHashes) == len(before.PartialHashes) && after.Error == before.Error &&
			after.ErrorStmt == before.ErrorStmt && after.Hash == before.Hash, "refusal leaves the recorded revision untouched")
	}
	if rerun {
		// Further attempts, as `migrate apply` would make them: the file is
		// executed again only while the executor itself considers it pending.
		ops = 0
		d3 := &vDriver{ops: &ops, failAt: -1, clean: true}
		ex3, _ := NewExecutor(d3, &vDir{files: []File{f2}, realHash: true}, rrw)
		// Executor.Pending re-submits the file while its revision is partial
		// (Applied != Total); directory validation is C06's subject.
		err3 := ErrNoPendingFiles
		if r := rrw.revs[0]; r.Applied != r.Total {
			err3 = ex3.Execute(ctx, f2)
		}
		verifReach("rerun")
		if same {
			verifAssert(errors.Is(err3, ErrNoPendingFiles), "after a successful resume nothing is pending")
			verifAssert(len(d3.executed) == 0, "after a successful resume nothing is executed again")
		} else {
			verifAssert(errors.As(err3, &hce), "a refused file stays refused")
			verifAssert(len(d3.executed) == 0, "a refused file executes nothing on retry")
		}
	}
}

// verifC12Twice: the file stops partially twice. Run 1 fails at statement k1;
// the tail is edited and run 2 (resumed) fails again at k2 >= k1; the file is
// edited once more and run 3 must resume iff statements 0..k2-1 are the ones
// that were applied - the hashes recorded by a *resumed* run are what counts.
func verifC12Twice(maxN, stmtLen int) {
	n := verifChoice("n", maxN-1) + 2  // 2..maxN statements in runs 1 and 2
	k1 := verifChoice("k1", n)         // 0..n-1
	k2 := k1 + verifChoice("dk", n-k1) // k1..n-1
	n3 := verifChoice("n3", maxN+1)    // 0..maxN statements in run 3
	f1s := make([]string, n)
	f2s := make([]string, n)
	f3s := make([]string, n3)
	for i := range f1s {
		f1s[i] = verifString(fmt.Sprintf("a%d", i), stmtLen)
		if i < k1 {
			f2s[i] = f1s[i] // applied prefix untouched
		} else {
			f2s[i] = verifString(fmt.Sprintf("b%d", i), stmtLen)
		}
	}
	for i := range f3s {
		f3s[i] = verifString(fmt.Sprintf("c%d", i), stmtLen)
	}
	ctx := context.Background()
	ops := 0
	rrw := &vRRW{ops: &ops, failAt: -1}
	run := func(stmts []string, failAt int) (*vDriver, error) {
		f := &vFile{name: "1_a.sql", version: "1", desc: "a", stmts: stmts}
		ops = 0
		d := &vDriver{ops: &ops, failAt: failAt}
		ex, err := NewExecutor(d, &vDir{files: []File{f}}, rrw)
		verifAssert(err == nil, "executor")
		return d, ex.Execute(ctx, f)
	}
	var see *StmtExecError
	d1, err := run(f1s, k1)
	verifAssert(errors.As(err, &see) && len(d1.executed) == k1, "run 1 stops at k1")
	// the driver counts operations of this run only: statement k2 of the file is the (k2-k1)-th executed
	d2, err := run(f2s, k2-k1)
	verifAssert(errors.As(err, &see), "run 2 resumes and stops again")
	verifAssert(len(d2.executed) == k2-k1, "run 2 executed statements k1..k2-1")
	verifAssert(len(rrw.revs) == 1 && rrw.revs[0].Applied == k2 && rrw.revs[0].Total == n, "run 2 recorded progress k2")
	d3, err := run(f3s, -1)
	same := n3 >= k2
	if same {
		for i := 0; i < k2; i++ {
			same = verifAnd(same, f3s[i] == f2s[i])
		}
	}
	var hce HistoryChangedError
	if same {
		verifReach("resume")
		verifAssert(err == nil, "unchanged applied prefix after two partial runs: the run resumes")
		verifAssert(len(d3.executed) == n3-k2, "the resume executes exactly the new tail")
		for i := range d3.executed {
			verifAssert(d3.executed[i] == f3s[k2+i], "the resume executes the new tail in order")
		}
	} else {
		verifReach("refuse")
		verifAssert(errors.As(err, &hce), "changed applied prefix: history-changed error")
		verifAssert(len(d3.executed) == 0, "refusal executes no statement")
	}
}

// verifC12Pending: the same question asked through the entry point the CLI
// uses (ExecuteN -> Pending -> Execute) on a directory that also holds a later
// file: a partially applied file whose applied part changed - or that no
// longer has as many statements as were applied - is refused, and the later
// file is not executed either.
func verifC12Pending(maxM, maxN, stmtLen int) {
	m := verifChoice("m", maxM-1) + 2 // 2..maxM old statements
	n := verifChoice("n", maxN+1)     // 0..maxN new statements
	k := verifChoice("k", m)          // 0..m-1 applied before the failure
	old := make([]string, m)
	cur := make([]string, n)
	for i := range old {
		old[i] = verifString(fmt.Sprintf("o%d", i), stmtLen)
	}
	for i := range cur {
		cur[i] = verifString(fmt.Sprintf("t%d", i), stmtLen)
	}
	later := &vFile{name: "2_b.sql", version: "2", desc: "b", stmts: []string{"LATER"}}
	mkDir := func(f *vFile) *vSumDir {
		files := []File{f, later}
		d := &vSumDir{vDir: vDir{files: files}}
		hf, err := NewHashFile(files)
		verifAssert(err == nil, "hash")
		d.sum, _ = hf.MarshalText()
		return d
	}
	ctx := context.Background()
	ops := 0
	rrw := &vRRW{ops: &ops, failAt: -1}
	f1 := &vFile{name: "1_a.sql", version: "1", desc: "a", stmts: old}
	d1 := &vDriver{ops: &ops, failAt: k, clean: true}
	ex1, err := NewExecutor(d1, mkDir(f1), rrw)
	verifAssert(err == nil, "executor 1")
	err = ex1.ExecuteN(ctx, 0)
	var see *StmtExecError
	verifAssert(errors.As(err, &see) && len(d1.executed) == k, "run 1 stops at statement k")
	verifAssert(len(rrw.revs) == 1 && rrw.revs[0].Applied == k && rrw.revs[0].Total == m, "run 1 recorded partial progress")
	f2 := &vFile{name: "1_a.sql", version: "1", desc: "a", stmts: cur}
	ops = 0
	d2 := &vDriver{ops: &ops, failAt: -1, clean: true}
	ex2, err := NewExecutor(d2, mkDir(f2), rrw)
	verifAssert(err == nil, "executor 2")
	err = ex2.ExecuteN(ctx, 0)
	same := n >= k
	if same {
		for i := 0; i < k; i++ {
			same = verifAnd(same, old[i] == cur[i])
		}
	}
	var hce HistoryChangedError
	if same {
		verifReach("resume")
		verifAssert(err == nil, "unchanged applied prefix: the run resumes and continues with the later file")
		verifAssert(len(d2.executed) == n-k+1, "the resume executes the new tail and then the later file")
	} else {
		verifReach("refuse")
		verifAssert(errors.As(err, &hce), "changed or truncated applied prefix: history-changed error")
		verifAssert(len(d2.executed) == 0, "a refused run executes nothing, not even later files")
	}
}

func VerifHarness_C12_pending()  { verifC12Pending(3, 3, 1) }
func VerifHarness_C12_twice()    { verifC12Twice(3, 1) }
func VerifHarness_C12_twice4()   { verifC12Twice(4, 2) }
func VerifHarness_C12_sums()     { verifC12src(2, 2, 0, true, true) }
func VerifHarness_C12_quick()    { verifC12(3, 3, 1, false) }
func VerifHarness_C12_rerun()    { verifC12(3, 3, 1, true) }
func VerifHarness_C12_thorough() { verifC12(5, 5, 2, true) }
