package migrate

import (
	"fmt"
)

// C07 (formatter + scanner half, default Atlas format): what is planned is
// what is read back. Statement texts carry symbolic bytes.

func verifC07Default(nchanges, slen int, opts ScannerOptions, withComment bool) {
	plan := &Plan{Version: "1", Name: "n"}
	var want []string
	for i := 0; i < nchanges; i++ {
		// a statement = keyword + symbolic payload inside a quoted literal or raw
		payload := verifString(fmt.Sprintf("p%d", i), slen)
		var cmd string
		switch verifChoice(fmt.Sprintf("shape%d", i), 3) {
		case 0:
			cmd = "INSERT " + payload
		case 1:
			cmd = "INSERT '" + payload + "'"
		default:
			cmd = "INSERT `" + payload + "`"
		}
		c := &Change{Cmd: cmd}
		if withComment {
			c.Comment = "c" + verifString(fmt.Sprintf("k%d", i), 1)
		}
		plan.Changes = append(plan.Changes, c)
		want = append(want, cmd)
	}
	files, err := DefaultFormatter.Format(plan)
	verifAssert(err == nil && len(files) == 1, "plan is formatted into one file")
	if err != nil || len(files) != 1 {
		return
	}
	verifObserve("file", string(files[0].Bytes()))
	stmts, err := (&Scanner{ScannerOptions: opts}).Scan(string(files[0].Bytes()))
	if err != nil {
		verifReach("scan-error")
		verifAssert(false, "the written file scans without error")
		return
	}
	verifReach("scanned")
	verifAssert(len(stmts) == len(want), "same number of statements as planned changes")
	for i := range stmts {
		if i < len(want) {
			verifAssert(stmts[i].Text == want[i]+";", "statement text equals the planned command")
		}
	}
}

func VerifHarness_C07_smoke() { verifC07Default(1, 1, verifOptsMySQL, true) }
