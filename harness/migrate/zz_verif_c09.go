package migrate

import (
	"context"
	"errors"
	"fmt"
)

// C09: files x statements, fault at any store operation (statement execution
// or revision write) in each of up to two faulty runs, then a clean run.

// verifMemDir builds a real MemDir holding nf files of ns statements with a
// valid sum file. Statement j of file i is "S<i>_<j>".
func verifMemDir(nf, ns int) (*MemDir, [][]string) { return verifMemDirCk(nf, ns, 0) }

// verifMemDirCk: file i is tagged as a checkpoint when bit i of mask is set.
func verifMemDirCk(nf, ns, mask int) (*MemDir, [][]string) {
	d := &MemDir{}
	all := make([][]string, nf)
	for i := 0; i < nf; i++ {
		content := ""
		if mask&(1<<i) != 0 {
			content = "-- atlas:checkpoint\n\n"
		}
		for j := 0; j < ns; j++ {
			st := fmt.Sprintf("S%d_%d", i, j)
			all[i] = append(all[i], st+";")
			content += st + ";\n"
		}
		if err := d.WriteFile(fmt.Sprintf("%d_f.sql", i+1), []byte(content)); err != nil {
			panic(err)
		}
	}
	sum, err := d.Checksum()
	if err != nil {
		panic(err)
	}
	if err := WriteSumFile(d, sum); err != nil {
		panic(err)
	}
	return d, all
}

func verifC09(maxF, maxS, faultyRuns int) { verifC09ck(maxF, maxS, faultyRuns, false) }

// verifC09ck: with checkpoints, any subset of the files may be checkpoints: the first run on
// the empty database starts at the latest one, the files before it are never executed, and
// the regular files after it all are.
func verifC09ck(maxF, maxS, faultyRuns int, checkpoints bool) {
	nf := verifChoice("files", maxF) + 1
	ns := verifChoice("stmts", maxS) + 1
	mask := 0
	if checkpoints {
		mask = verifChoice("checkpoints", 1<<nf)
		if mask != 0 {
			verifReach("checkpoint")
		}
	}
	dir, all := verifMemDirCk(nf, ns, mask)
	first := 0
	for i := 0; i < nf; i++ {
		if mask&(1<<i) != 0 {
			first = i
		}
	}
	var flat []string
	for _, f := range all[first:] {
		flat = append(flat, f...)
	}
	ctx := context.Background()
	ops := 0
	rrw := &vRRW{ops: &ops, failAt: -1, countWrite: true}
	var executed []string // over all runs
	execCount := map[string]int{}
	bookFail := map[string]int{} // failed bookkeeping writes that followed an execution of the statement
	stmtFaultsOnly := true
	maxOps := nf*(2*ns+3) + 2
	for run := 0; run <= faultyRuns; run++ {
		failAt := -1
		if run < faultyRuns {
			failAt = verifInt(fmt.Sprintf("fail%d", run), -1, maxOps)
		}
		ops = 0
		drv := &vDriver{ops: &ops, failAt: failAt, clean: true}
		rrw.failAt = failAt
		ex, err := NewExecutor(drv, dir, rrw)
		verifAssert(err == nil, "executor")
		before := len(executed)
		err = ex.ExecuteN(ctx, 0)
		executed = append(executed, drv.executed...)
		for _, s := range drv.executed {
			execCount[s]++
		}
		if failAt >= 0 && failAt < ops {
			// the store failed an operation of this run
			verifAssert(err != nil, "a failed statement or revision write is never swallowed: the run reports it")
		}
		var wre *WriteRevisionError
		var see *StmtExecError
		if errors.As(err, &see) {
			verifReach("stmt-fault")
		}
		if errors.As(err, &wre) {
			verifReach("write-fault")
			if !stmtFaultsOnly {
				verifReach("two-write-faults")
			}
			stmtFaultsOnly = false
			if n := len(drv.executed); n > 0 {
				// the write that failed is the bookkeeping of the last executed statement
				// (or a start/finish marker: then nothing is repeated because of it)
				bookFail[drv.executed[n-1]]++
			}
		}
		// The history never claims more than was really executed.
		for _, r := range rrw.revs {
			fi := int(r.Version[0] - '1')
			real := 0
			for _, s := range executed {
				if len(s) > 1 && int(s[1]-'0') == fi {
					real++
				}
			}
			verifAssert(r.Applied <= real, "history never claims more statements than were executed")
		}
		// order within this run: a contiguous slice of the flat order
		if n := len(drv.executed); n > 0 {
			start := -1
			for i, s := range flat {
				if s == drv.executed[0] {
					start = i
					break
				}
			}
			verifAssert(start >= 0 && start+n <= len(flat), "executed statements belong to the directory")
			for i := 0; i < n && start >= 0 && start+i < len(flat); i++ {
				verifAssert(drv.executed[i] == flat[start+i], "statements run in version order and file order, none skipped")
			}
		}
		_ = before
		if run == faultyRuns {
			verifReach("clean-run")
			verifAssert(err == nil || errors.Is(err, ErrNoPendingFiles), "the clean run completes")
			for _, r := range rrw.revs {
				verifAssert(r.Applied == r.Total && r.Total == ns, "after the clean run every file is fully applied")
			}
			verifAssert(len(rrw.revs) == nf-first, "after the clean run every executed file has a revision")
		}
	}
	// global order: the concatenation over runs never skips a statement
	pos := 0
	for _, s := range executed {
		idx := -1
		for i, t := range flat {
			if t == s {
				idx = i
			}
		}
		verifAssert(idx <= pos, "no statement is skipped across attempts")
		if idx == pos {
			pos++
		}
	}
	verifAssert(pos == len(flat), "every statement was executed")
	for _, s := range flat {
		verifAssert(execCount[s] >= 1, "every statement executed at least once")
		verifAssert(execCount[s] <= 1+bookFail[s], "a statement is repeated only when its own bookkeeping write failed")
		if stmtFaultsOnly {
			verifAssert(execCount[s] == 1, "with statement faults only, every statement is executed exactly once")
		}
	}
}

func VerifHarness_C09_quick()    { verifC09(2, 3, 2) }
func VerifHarness_C09_ckpt()     { verifC09ck(3, 2, 1, true) }
func VerifHarness_C09_thorough() { verifC09(3, 3, 2) }
