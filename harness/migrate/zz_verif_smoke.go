package migrate

import "strings"

func VerifHarness_Smoke() {
	s := verifString("s", 3)
	i := strings.Index(s, ";")
	if i >= 0 {
		verifAssert(s[i] == ';', "index points at semicolon")
		verifReach("found")
	} else {
		verifAssert(!strings.Contains(s, ";"), "no semicolon")
	}
	k := verifInt("k", 0, 5)
	arr := []int{1, 2, 3}
	if k < 3 {
		verifAssert(arr[k] == k+1, "array")
	}
	verifAssert(k != 4 || s[0] != 'x', "seeded violation")
}
