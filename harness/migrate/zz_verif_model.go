package migrate

// Environment models shared by the migrate harnesses: a recording driver with
// fault injection, a revision table that stores copies, an in-memory
// directory of pre-scanned files.

import (
	"context"
	"database/sql"
	"errors"
	"io/fs"
)

type vDriver struct {
	Driver   // nil: any other method panics
	executed []string
	ops      *int // shared operation counter (statements and revision writes)
	failAt   int  // operation index that fails (-1: none)
	clean    bool
}

var errVerifExec = errors.New("verif: injected statement failure")
var errVerifWrite = errors.New("verif: injected revision write failure")

func (d *vDriver) ExecContext(_ context.Context, q string, _ ...any) (sql.Result, error) {
	op := *d.ops
	*d.ops = op + 1
	if op == d.failAt {
		return nil, errVerifExec
	}
	d.executed = append(d.executed, q)
	return nil, nil
}

func (d *vDriver) CheckClean(context.Context, *TableIdent) error {
	if d.clean {
		return nil
	}
	return &NotCleanError{Reason: "verif: not clean"}
}

// vRRW keeps copies of the revisions, like a table would.
type vRRW struct {
	revs       []*Revision
	ops        *int
	failAt     int
	countWrite bool // revision writes take part in the operation counter
	writes     int
}

func copyRev(r *Revision) *Revision {
	c := *r
	c.PartialHashes = append([]string(nil), r.PartialHashes...)
	return &c
}

func (w *vRRW) Ident() *TableIdent { return &TableIdent{Name: "atlas_schema_revisions"} }

func (w *vRRW) ReadRevisions(context.Context) ([]*Revision, error) {
	out := make([]*Revision, len(w.revs))
	for i, r := range w.revs {
		out[i] = copyRev(r)
	}
	return out, nil
}

func (w *vRRW) ReadRevision(_ context.Context, v string) (*Revision, error) {
	for _, r := range w.revs {
		if r.Version == v {
			return copyRev(r), nil
		}
	}
	return nil, ErrRevisionNotExist
}

func (w *vRRW) WriteRevision(_ context.Context, r *Revision) error {
	if w.countWrite {
		op := *w.ops
		*w.ops = op + 1
		if op == w.failAt {
			return errVerifWrite
		}
	}
	w.writes++
	for i, o := range w.revs {
		if o.Version == r.Version {
			w.revs[i] = copyRev(r)
			return nil
		}
	}
	// keep sorted by version
	c := copyRev(r)
	pos := len(w.revs)
	for i, o := range w.revs {
		if o.Version > r.Version {
			pos = i
			break
		}
	}
	w.revs = append(w.revs, nil)
	copy(w.revs[pos+1:], w.revs[pos:])
	w.revs[pos] = c
	return nil
}

func (w *vRRW) DeleteRevision(_ context.Context, v string) error {
	for i, r := range w.revs {
		if r.Version == v {
			w.revs = append(w.revs[:i], w.revs[i+1:]...)
			return nil
		}
	}
	return nil
}

// vFile is a migration file whose statements are given directly.
type vFile struct {
	name, version, desc string
	stmts               []string
	checkpoint          bool
}

func (f *vFile) Name() string    { return f.name }
func (f *vFile) Desc() string    { return f.desc }
func (f *vFile) Version() string { return f.version }
func (f *vFile) Bytes() []byte {
	var b []byte
	for _, s := range f.stmts {
		b = append(b, s...)
		b = append(b, ";\n"...)
	}
	return b
}
func (f *vFile) Stmts() ([]string, error) { return f.stmts, nil }
func (f *vFile) StmtDecls() ([]*Stmt, error) {
	out := make([]*Stmt, len(f.stmts))
	for i, s := range f.stmts {
		out[i] = &Stmt{Pos: i, Text: s}
	}
	return out, nil
}
func (f *vFile) IsCheckpoint() bool { return f.checkpoint }
func (f *vFile) CheckpointTag() (string, error) {
	if !f.checkpoint {
		return "", ErrNotCheckpoint
	}
	return "", nil
}

// vDir is a directory of vFiles; its checksum is computed by the real code.
type vDir struct {
	files    []File
	realHash bool // compute the checksum with the real NewHashFile
}

func (d *vDir) Open(string) (fs.File, error)   { return nil, fs.ErrNotExist }
func (d *vDir) WriteFile(string, []byte) error { return errors.New("verif: read-only dir") }
func (d *vDir) Files() ([]File, error)         { return d.files, nil }
func (d *vDir) Checksum() (HashFile, error) {
	if d.realHash {
		return NewHashFile(d.files)
	}
	hf := make(HashFile, len(d.files))
	for i, f := range d.files {
		hf[i].N, hf[i].H = f.Name(), "verif-hash"
	}
	return hf, nil
}
