package migrate

import (
	"strings"
	"unicode"
	"unicode/utf8"
)

// C08: the statement scanner on arbitrary input.

var (
	verifOptsDefault  = ScannerOptions{MatchBegin: false, MatchBeginAtomic: true, MatchDollarQuote: true}
	verifOptsMySQL    = ScannerOptions{MatchBegin: true, BackslashEscapes: true, HashComments: true}
	verifOptsPostgres = ScannerOptions{MatchBegin: true, MatchBeginAtomic: true, MatchDollarQuote: true, EscapedStringExt: true}
	verifOptsSQLite   = ScannerOptions{MatchBegin: true, MatchDollarQuote: false}
	verifOptsTSQL     = ScannerOptions{MatchBegin: true, MatchBeginTryCatch: true, GoCommand: true, BeginEndTerminator: true}
)

// verifGapOK is an independent classifier of the text the scanner may drop
// between statements: blanks, delimiters, comments, delimiter commands.
func verifGapOK(gap string, delim *string, opts ScannerOptions) bool {
	for len(gap) > 0 {
		r, w := utf8.DecodeRuneInString(gap)
		switch {
		case unicode.IsSpace(r):
			gap = gap[w:]
		case strings.HasPrefix(gap, *delim):
			gap = gap[len(*delim):]
		case strings.HasPrefix(gap, "--"), opts.HashComments && gap[0] == '#':
			i := strings.IndexByte(gap, '\n')
			if i < 0 {
				return true
			}
			gap = gap[i+1:]
		case strings.HasPrefix(gap, "/*"):
			i := strings.Index(gap[2:], "*/")
			if i < 0 {
				return false
			}
			gap = gap[2+i+2:]
		case len(gap) > len(delimiterCmd) && strings.EqualFold(gap[:len(delimiterCmd)], delimiterCmd) && gap[len(delimiterCmd)] == ' ':
			line := gap
			if i := strings.IndexByte(gap, '\n'); i >= 0 {
				line, gap = gap[:i], gap[i+1:]
			} else {
				gap = ""
			}
			d := strings.TrimSpace(line[len(delimiterCmd):])
			if strings.HasPrefix(d, "'") && strings.HasSuffix(d, "'") && len(d) >= 2 {
				d = strings.ReplaceAll(d[1:len(d)-1], "''", "'")
			}
			if d == "" {
				return false
			}
			*delim = strings.NewReplacer(`\n`, "\n", `\r`, "\r", `\t`, "\t").Replace(d)
		case opts.GoCommand && len(gap) >= 2 && (gap[0] == 'G' || gap[0] == 'g') && (gap[1] == 'O' || gap[1] == 'o'):
			i := strings.IndexByte(gap, '\n')
			if i < 0 {
				i = len(gap)
			}
			// the batch count is what strconv.Atoi accepts: digits with an optional sign
			cnt := strings.TrimSpace(gap[2:i])
			if len(cnt) > 1 && (cnt[0] == '+' || cnt[0] == '-') {
				cnt = cnt[1:]
			}
			for _, c := range cnt {
				if c < '0' || c > '9' {
					return false
				}
			}
			if i == len(gap) {
				return true
			}
			gap = gap[i+1:]
		default:
			return false
		}
	}
	return true
}

func verifC08(input string, opts ScannerOptions, checkGaps bool) {
	stmts, err := (&Scanner{ScannerOptions: opts}).Scan(input)
	if err != nil {
		verifReach("error")
		return
	}
	verifReach("ok")
	delim := ";"
	body := input
	if d, ok := directive(input, directiveDelimiter, directivePrefixSQL); ok {
		delim = strings.NewReplacer(`\n`, "\n", `\r`, "\r", `\t`, "\t").Replace(d)
		if i := strings.IndexByte(input, '\n'); i >= 0 {
			body = input[i+1:]
		}
	}
	hdr := len(input) - len(body)
	prevEnd := hdr
	for _, s := range stmts {
		verifReach("stmt")
		end := s.Pos + len(s.Text)
		verifAssert(s.Pos >= 0 && end <= len(input), "statement lies inside the input")
		if s.Pos < 0 || end > len(input) {
			return
		}
		verifAssert(input[s.Pos:end] == s.Text, "statement text is found at its reported position")
		verifAssert(s.Pos >= prevEnd, "statements are increasing and do not overlap")
		if checkGaps && s.Pos >= prevEnd {
			verifAssert(verifGapOK(input[prevEnd:s.Pos], &delim, opts), "text dropped before a statement is only blanks, comments, delimiters or delimiter commands")
		}
		prevEnd = end
	}
	if checkGaps && prevEnd <= len(input) {
		verifAssert(verifGapOK(input[prevEnd:], &delim, opts), "text dropped after the last statement is only blanks, comments, delimiters or delimiter commands")
	}
}

func verifOptSet(i int) ScannerOptions {
	switch i {
	case 0:
		return verifOptsDefault
	case 1:
		return verifOptsMySQL
	case 2:
		return verifOptsPostgres
	case 3:
		return verifOptsSQLite
	}
	return verifOptsTSQL
}

// Prefixes that make deep scanner features reachable with few free bytes.
var verifC08Prefixes = []string{
	"-- atlas:delimiter //\n",
	"-- atlas:delimiter \\n\n",
	"DELIMITER //\n",
	"delimiter $$\nA$$",
	"BEGIN ",
	"BEGIN ATOMIC ",
	"BEGIN TRY ",
	"$$",
	"$a$x",
	"A\nGO\n",
	"GO 2\n",
	"-- c\n",
	"/* c */",
	"# c\n",
	"'",
	"E'\\",
	"(",
	"A;",
	// open commands: the free bytes are the delimiter / the batch count
	"DELIMITER ",
	"-- atlas:delimiter ",
	"A\nGO ",
	// a comment closed directly by the delimiter: whatever follows is a statement of its own
	"/* c */;",
	"-- c\n;",
	"A; -- c\n;",
}

func verifC08Free(n int, opts int) {
	verifC08(verifString("b", n), verifOptSet(opts), true)
}

func verifC08Prefixed(n int) {
	p := verifChoice("prefix", len(verifC08Prefixes))
	o := verifChoice("opts", 5)
	verifC08(verifC08Prefixes[p]+verifString("b", n), verifOptSet(o), true)
}

// Suffix variant: free bytes first, then text that closes blocks.
var verifC08Suffixes = []string{" END;", "$$;", "*/x;", "\nGO", "';", " END CATCH;"}

func verifC08Suffixed(n int) {
	p := verifChoice("suffix", len(verifC08Suffixes))
	o := verifChoice("opts", 5)
	verifC08("BEGIN "+verifString("b", n)+verifC08Suffixes[p], verifOptSet(o), true)
}

func verifC08SymOpts(n int) {
	opts := ScannerOptions{
		MatchBegin: verifBool("oMatchBegin"), MatchBeginAtomic: verifBool("oMatchBeginAtomic"),
		MatchBeginTryCatch: verifBool("oMatchBeginTryCatch"), MatchDollarQuote: verifBool("oMatchDollarQuote"),
		BackslashEscapes: verifBool("oBackslashEscapes"), EscapedStringExt: verifBool("oEscapedStringExt"),
		HashComments: verifBool("oHashComments"), GoCommand: verifBool("oGoCommand"),
		BeginEndTerminator: verifBool("oBeginEndTerminator"), OmitDelimiter: verifBool("oOmitDelimiter"),
	}
	verifC08(verifString("b", n), opts, false)
}

func VerifHarness_C08_free2()    { verifC08Free(2, verifChoice("opts", 5)) }
func VerifHarness_C08_free3()    { verifC08Free(3, verifChoice("opts", 5)) }
func VerifHarness_C08_free4()    { verifC08Free(4, 0) }
func VerifHarness_C08_free4my()  { verifC08Free(4, 1) }
func VerifHarness_C08_free4pg()  { verifC08Free(4, 2) }
func VerifHarness_C08_free4ts()  { verifC08Free(4, 4) }
func VerifHarness_C08_pre1()     { verifC08Prefixed(1) }
func VerifHarness_C08_pre2()     { verifC08Prefixed(2) }
func VerifHarness_C08_pre3()     { verifC08Prefixed(3) }
func VerifHarness_C08_suf1()     { verifC08Suffixed(1) }
func VerifHarness_C08_suf2()     { verifC08Suffixed(2) }
func VerifHarness_C08_symopts1() { verifC08SymOpts(1) }
func VerifHarness_C08_symopts2() { verifC08SymOpts(2) }

func VerifHarness_C08_hdr2() {
	verifC08("-- atlas:delimiter //\n"+verifString("b", 2), verifOptsDefault, true)
}
func VerifHarness_C08_hdr3() {
	verifC08("-- atlas:delimiter //\n"+verifString("b", 3), verifOptsDefault, true)
}
