package migrate

import (
	"bytes"
	"context"
	"errors"
	"fmt"
	"io"
	"io/fs"
)

// C11: pending-file computation for every directory / history / option set.

// vSumDir is a checkpoint-aware directory of model files with a valid sum file.
type vSumDir struct {
	vDir
	sum []byte
}

func (d *vSumDir) Open(name string) (fs.File, error) {
	if name == HashFileName && d.sum != nil {
		return &memFile{io.NopCloser(bytes.NewReader(d.sum))}, nil
	}
	return nil, fs.ErrNotExist
}
func (d *vSumDir) Checksum() (HashFile, error) { return NewHashFile(d.files) }
func (d *vSumDir) WriteCheckpoint(string, string, []byte) error {
	return errors.New("verif: read-only dir")
}
func (d *vSumDir) CheckpointFiles() ([]File, error) { return checkpointFiles(d) }
func (d *vSumDir) FilesFromCheckpoint(name string) ([]File, error) {
	return filesFromCheckpoint(d, name)
}

func verifNames(fs []File) string {
	s := ""
	for _, f := range fs {
		s += f.Version() + ","
	}
	return s
}

func verifC11(maxF int, symVersions, withCount bool) {
	nf := verifChoice("files", maxF) + 1
	files := make([]File, nf)
	vf := make([]*vFile, nf)
	for i := range files {
		v := fmt.Sprintf("%d", i+1)
		if symVersions {
			v = verifString(fmt.Sprintf("v%d", i), 1)
			verifAssume(v[0] >= '1' && v[0] <= 'z' && (v[0] <= '9' || v[0] >= 'a'))
			if i > 0 {
				verifAssume(vf[i-1].version < v)
			}
		}
		ck := verifBool(fmt.Sprintf("ck%d", i))
		vf[i] = &vFile{name: v + "_f.sql", version: v, desc: "f", stmts: []string{"S" + fmt.Sprint(i)}, checkpoint: ck}
		files[i] = vf[i]
	}
	dir := &vSumDir{vDir: vDir{files: files}}
	hf, err := NewHashFile(files)
	verifAssert(err == nil, "hash")
	dir.sum, _ = hf.MarshalText()
	// history
	ops := 0
	rrw := &vRRW{ops: &ops, failAt: -1}
	has := make([]bool, nf)
	lastRev := -1
	firstRev := -1
	for i := 0; i < nf; i++ {
		has[i] = verifBool(fmt.Sprintf("rev%d", i))
		if has[i] {
			if firstRev < 0 {
				firstRev = i
			}
			lastRev = i
		}
	}
	partial := false
	if lastRev >= 0 {
		partial = verifBool("partial")
	}
	for i := 0; i < nf; i++ {
		if has[i] {
			// reachable histories: a checkpoint is only ever the first revision
			verifAssume(!vf[i].checkpoint || i == firstRev)
			r := &Revision{Version: vf[i].version, Description: "f", Type: RevisionTypeExecute, Applied: 1, Total: 1}
			if i == lastRev && partial {
				r.Applied, r.Total = 0, 1
			}
			rrw.revs = append(rrw.revs, r)
		}
	}
	order := ExecOrder(verifChoice("order", 3))
	opts := []ExecutorOption{WithExecOrder(order)}
	baseline := -1
	allowDirty := false
	dirty := false
	if lastRev < 0 {
		dirty = verifBool("dirty")
		switch verifChoice("first", 3) {
		case 1:
			allowDirty = true
			opts = append(opts, WithAllowDirty(true))
		case 2:
			baseline = verifChoice("baseline", nf)
			opts = append(opts, WithBaselineVersion(vf[baseline].version))
		}
	}
	drv := &vDriver{ops: &ops, failAt: -1, clean: !dirty}
	ex, err := NewExecutor(drv, dir, rrw, opts...)
	verifAssert(err == nil, "executor")
	// A second, identical store for the apply-with-count run.
	rrw2 := &vRRW{ops: &ops, failAt: -1}
	for _, r := range rrw.revs {
		rrw2.revs = append(rrw2.revs, copyRev(r))
	}
	pending, err := ex.Pending(context.Background())

	// ---- reference semantics ----
	var mig []int // non-checkpoint files
	lastCk := -1
	for i := range vf {
		if vf[i].checkpoint {
			lastCk = i
		} else {
			mig = append(mig, i)
		}
	}
	var want []int
	wantErr := ""
	switch {
	case lastRev < 0:
		switch {
		case dirty && !allowDirty && baseline < 0:
			wantErr = "dirty"
		case baseline >= 0:
			if vf[baseline].checkpoint {
				wantErr = "baseline-not-found"
				break
			}
			for _, i := range mig {
				if i > baseline {
					want = append(want, i)
				}
			}
		case lastCk >= 0:
			for i := lastCk; i < nf; i++ {
				want = append(want, i)
			}
		default:
			for i := 0; i < nf; i++ {
				want = append(want, i)
			}
		}
	case partial && vf[lastRev].checkpoint:
		want = append(want, lastRev)
		for _, i := range mig {
			if i > lastRev {
				want = append(want, i)
			}
		}
	default:
		var skipped []int
		for _, i := range mig {
			if i >= firstRev && i < lastRev && !has[i] {
				skipped = append(skipped, i)
			}
		}
		for _, i := range mig {
			if i > lastRev || i == lastRev && partial {
				want = append(want, i)
			}
		}
		if len(mig) == 0 {
			skipped = nil
		}
		switch {
		case len(skipped) == 0 || order == ExecOrderLinearSkip:
		case order == ExecOrderLinear:
			wantErr = "non-linear"
		default:
			want = append(skipped, want...)
		}
	}
	if wantErr == "" && len(want) == 0 {
		wantErr = "no-pending"
	}
	got := verifNames(pending)
	verifObserve("pending", got)
	switch wantErr {
	case "":
		verifReach("pending")
		verifAssert(err == nil, "pending files are returned without error")
		exp := ""
		for _, i := range want {
			exp += vf[i].version + ","
		}
		verifAssert(got == exp, "pending set and order follow the documented semantics")
	case "no-pending":
		verifReach("no-pending")
		verifAssert(errors.Is(err, ErrNoPendingFiles), "nothing pending is reported as ErrNoPendingFiles")
	case "non-linear":
		verifReach("non-linear")
		var nle *HistoryNonLinearError
		verifAssert(errors.As(err, &nle), "out-of-order files are rejected in linear mode")
	case "dirty":
		verifReach("dirty")
		var nce *NotCleanError
		verifAssert(errors.As(err, &nce) && len(pending) == 0, "a dirty database without baseline/allow-dirty is refused")
	case "baseline-not-found":
		verifAssert(err != nil && len(pending) == 0, "unknown baseline version is an error")
	}
	if baseline >= 0 && wantErr == "" {
		verifAssert(len(rrw.revs) == 1 && rrw.revs[0].Type == RevisionTypeBaseline && rrw.revs[0].Version == vf[baseline].version, "a baseline revision is written")
	}
	// apply-with-count agrees with the pending decision
	if withCount {
		cnt := verifChoice("count", nf+2) // 0 = all
		drv2 := &vDriver{ops: &ops, failAt: -1, clean: !dirty}
		ex2, _ := NewExecutor(drv2, dir, rrw2, opts...)
		err2 := ex2.ExecuteN(context.Background(), cnt)
		if wantErr == "" {
			verifAssert(err2 == nil, "apply with count succeeds when files are pending")
			n := len(want)
			if cnt > 0 && cnt < n {
				n = cnt
			}
			verifAssert(len(drv2.executed) == n, "apply with count runs the first n pending files")
			for i := 0; i < n && i < len(drv2.executed); i++ {
				verifAssert(drv2.executed[i] == vf[want[i]].stmts[0], "apply with count runs the pending files in order")
			}
		} else {
			verifAssert(err2 != nil && len(drv2.executed) == 0, "apply with count executes nothing when pending fails")
		}
	}
	// Generic invariants, independent of the reference.
	if err == nil {
		for a, f := range pending {
			for b, g := range pending {
				verifAssert(a == b || f.Version() != g.Version(), "pending is duplicate-free")
			}
			for i := range vf {
				if has[i] && !(i == lastRev && partial) {
					verifAssert(f.Version() != vf[i].version, "a fully applied version is never pending")
				}
			}
		}
		if partial && len(pending) > 0 && order != ExecOrderNonLinear {
			verifAssert(pending[0].Version() == vf[lastRev].version, "the partially applied file is first")
		}
	}
}

func VerifHarness_C11_quick()    { verifC11(4, false, false) }
func VerifHarness_C11_count3()   { verifC11(3, false, true) }
func VerifHarness_C11_sym3()     { verifC11(3, true, false) }
func VerifHarness_C11_thorough() { verifC11(5, false, false) }
func VerifHarness_C11_count4()   { verifC11(4, false, true) }
func VerifHarness_C11_sym4()     { verifC11(4, true, false) }
