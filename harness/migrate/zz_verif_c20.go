package migrate

import (
	"fmt"
	"strings"
)

// C20 (directory half): listing and hashing a directory is independent of map
// iteration order and of the order in which files were written.

// verifDirNames: the second set has files that share a version (the prefix before
// the first underscore), as up/down pairs and same-timestamp files do.
var verifDirNameSets = [][]string{
	{"1_a.sql", "2_b.sql", "3_c.sql", "notes.txt"},
	{"1_b.up.sql", "1_b.down.sql", "1_a.sql", "1.sql"},
}

func verifDirOutput(names []string, order []int) string {
	d := &MemDir{}
	for _, i := range order {
		if err := d.WriteFile(names[i], []byte(fmt.Sprintf("S%d;\n", i))); err != nil {
			panic(err)
		}
	}
	files, err := d.Files()
	verifAssert(err == nil, "files")
	var sb strings.Builder
	for _, f := range files {
		sb.WriteString(f.Name() + ",")
	}
	sum, err := d.Checksum()
	verifAssert(err == nil, "checksum")
	verifAssert(WriteSumFile(d, sum) == nil, "write sum")
	verifAssert(Validate(d) == nil, "directory validates")
	for _, e := range sum {
		sb.WriteString(e.N + ";")
	}
	plan := &Plan{Version: "1", Name: "n", Changes: []*Change{{Cmd: "A", Comment: "x"}, {Cmd: "B"}}}
	fs, err := DefaultFormatter.Format(plan)
	verifAssert(err == nil && len(fs) == 1, "format")
	sb.WriteString(fs[0].Name() + ":" + string(fs[0].Bytes()))
	return sb.String()
}

func VerifHarness_C20_dir() {
	names := verifDirNameSets[verifChoice("names", len(verifDirNameSets))]
	verifMapOrder(false)
	ref := verifDirOutput(names, []int{0, 1, 2, 3})
	sumRef := verifSumTokens(names, []int{0, 1, 2, 3})
	// any write order x any map iteration order
	perm := [][]int{{0, 1, 2, 3}, {3, 2, 1, 0}, {1, 3, 0, 2}, {2, 0, 3, 1}}[verifChoice("write-order", 4)]
	verifMapOrder(true)
	got := verifDirOutput(names, perm)
	sumGot := verifSumTokens(names, perm)
	verifMapOrder(false)
	verifReach("compared")
	verifObserve("listing", got)
	verifAssert(got == ref, "directory listing, sum entries and formatted file are byte-identical for every iteration / write order")
	verifAssert(sumGot == sumRef, "the marshalled sum file is identical for every iteration / write order")
}

func verifSumTokens(names []string, order []int) string {
	d := &MemDir{}
	for _, i := range order {
		d.WriteFile(names[i], []byte(fmt.Sprintf("S%d;\n", i)))
	}
	sum, _ := d.Checksum()
	b, _ := sum.MarshalText()
	return string(b)
}

// VerifHarness_C20_format2: formatting is a function of the plan only. Two plans
// formatted one after the other (and the first one once more) give files whose
// bytes do not change behind the caller's back: what Format returned for the
// first plan still reads the same after later Format calls.
func VerifHarness_C20_format2() {
	p1 := &Plan{Version: "1", Name: "first", Changes: []*Change{{Cmd: "CREATE TABLE t1 (c1 int NOT NULL, c2 int NOT NULL, c3 int NOT NULL)", Comment: "create t1"}}}
	p2 := &Plan{Version: "2", Name: "second", Changes: []*Change{{Cmd: "DROP TABLE t0", Comment: "drop t0"}}}
	which := verifChoice("formatter", 1)
	_ = which
	f1, err := DefaultFormatter.Format(p1)
	verifAssert(err == nil && len(f1) == 1, "first plan is formatted")
	before := string(f1[0].Bytes())
	f2, err := DefaultFormatter.Format(p2)
	verifAssert(err == nil && len(f2) == 1, "second plan is formatted")
	verifReach("compared")
	verifObserve("first", before)
	verifAssert(string(f1[0].Bytes()) == before, "a formatted file keeps its bytes when another plan is formatted afterwards")
	f3, err := DefaultFormatter.Format(p1)
	verifAssert(err == nil && len(f3) == 1 && string(f3[0].Bytes()) == before, "formatting the same plan again gives the same bytes")
	verifAssert(string(f2[0].Bytes()) != before, "different plans give different files")
}
