package migrate

import (
	"errors"
	"fmt"
)

// C06: the sum file is written for directory D and validated against D'.
// Both are arbitrary (bounded) directories, which subsumes every single and
// compound edit: add anywhere, remove, rename, edit any byte, swap contents.

const verifIgnoreHdr = "-- atlas:sum ignore\n"

type verifDirSpec struct {
	names    []string
	contents []string
	ignored  []bool
}

// verifSymDir declares n files with names "<x>.sql" (x a symbolic letter,
// strictly increasing so names are distinct and sorted) and symbolic contents.
// verifContentLens: when non-nil, the content length of each file is picked
// from this list by a choice point (boundary-shift edits need directories whose
// files differ in length while the byte stream fed to the hash is the same).
var verifContentLens []int

func verifSymDir(tag string, n, clen int, withIgnore, symNames bool) verifDirSpec {
	var d verifDirSpec
	for i := 0; i < n; i++ {
		// The original directory has fixed names b, d, f, ... ; the edited one
		// has symbolic names, so it can add before, between and after them.
		x := string(rune('b' + 2*i))
		if symNames {
			x = verifString(fmt.Sprintf("%sn%d", tag, i), 1)
			verifAssume(x[0] >= 'a' && x[0] <= 'z')
			if i > 0 {
				verifAssume(d.names[i-1][0] < x[0])
			}
		}
		cl := clen
		if verifContentLens != nil && i < n-1 {
			cl = verifContentLens[verifChoice(fmt.Sprintf("%slen%d", tag, i), len(verifContentLens))]
		}
		c := verifString(fmt.Sprintf("%sc%d", tag, i), cl)
		ign := false
		if withIgnore && verifChoice(fmt.Sprintf("%sign%d", tag, i), 2) == 1 {
			ign = true
			c = verifIgnoreHdr + c
		}
		d.names = append(d.names, x+".sql")
		d.contents = append(d.contents, c)
		d.ignored = append(d.ignored, ign)
	}
	return d
}

func (d verifDirSpec) mem() *MemDir {
	m := &MemDir{}
	for i := range d.names {
		if err := m.WriteFile(d.names[i], []byte(d.contents[i])); err != nil {
			panic(err)
		}
	}
	return m
}

// verifSameDir: are the two directories identical (names, order, bytes)?
func verifSameDir(a, b verifDirSpec) bool {
	if len(a.names) != len(b.names) {
		return false
	}
	same := true
	for i := range a.names {
		same = verifAnd(same, verifAnd(a.names[i] == b.names[i], a.contents[i] == b.contents[i]))
	}
	return same
}

// verifHashedView: the part of a directory the sum file commits to. Files
// carrying the sum-ignore directive contribute only their name, and only
// when a hashed file follows them.
func verifHashedViewEq(a, b verifDirSpec) bool {
	type ent struct {
		pre  []string // names of ignored files since the previous hashed file
		name string
		body string
	}
	view := func(d verifDirSpec) []ent {
		var out []ent
		var pre []string
		for i := range d.names {
			if d.ignored[i] {
				pre = append(pre, d.names[i])
				continue
			}
			out = append(out, ent{pre, d.names[i], d.contents[i]})
			pre = nil
		}
		return out
	}
	va, vb := view(a), view(b)
	if len(va) != len(vb) {
		return false
	}
	same := true
	for i := range va {
		if len(va[i].pre) != len(vb[i].pre) {
			return false
		}
		for j := range va[i].pre {
			same = verifAnd(same, va[i].pre[j] == vb[i].pre[j])
		}
		same = verifAnd(same, verifAnd(va[i].name == vb[i].name, va[i].body == vb[i].body))
	}
	return same
}

func verifC06(maxFiles, clen int, withIgnore, strict bool) {
	n1 := verifChoice("files", maxFiles+1)
	n2 := verifChoice("files2", maxFiles+1)
	verifC06Pair(n1, n2, clen, withIgnore, strict)
}

// verifC06Sized: both directories have exactly n files.
func verifC06Sized(n, clen int) { verifC06Pair(n, n, clen, false, false) }

func verifC06Pair(n1, n2, clen int, withIgnore, strict bool) {
	d1 := verifSymDir("a", n1, clen, withIgnore, false)
	d2 := verifSymDir("b", n2, clen, withIgnore, true)
	m1 := d1.mem()
	sum, err := m1.Checksum()
	verifAssert(err == nil, "checksum of the original directory")
	verifAssert(WriteSumFile(m1, sum) == nil, "sum file written")
	// An untouched directory validates.
	verifAssert(Validate(m1) == nil, "an untouched directory validates")
	// D' with D's sum file.
	m2 := d2.mem()
	verifAssert(WriteSumFile(m2, sum) == nil, "sum file copied")
	err = Validate(m2)
	if n1 == 0 && n2 == 0 {
		verifAssert(err == nil, "empty directory validates")
		return
	}
	if err == nil {
		verifReach("validates")
	} else {
		verifReach("rejected")
		var ce *ChecksumError
		verifAssert(errors.As(err, &ce) && errors.Is(err, ErrChecksumMismatch), "tampering is reported as a checksum mismatch")
	}
	if withIgnore && !strict && verifKnown("C06-ignored-files") {
		// Known finding (see known_findings.jsonl): files carrying the
		// sum-ignore directive are committed to by name only, and not at all
		// after the last hashed file. Everything else must still be exact.
		same := verifHashedViewEq(d1, d2)
		if err == nil {
			verifAssert(same, "validation succeeded although the hashed view of the directory changed")
		} else {
			verifAssert(!same, "validation failed although the hashed view of the directory is unchanged")
		}
		return
	}
	same := verifSameDir(d1, d2)
	if err == nil {
		verifAssert(same, "validation succeeded although the directory changed")
	} else {
		verifAssert(!same, "validation failed although the directory is unchanged")
	}
}

// Boundary shifts: three files, the last one fixed in length, the first two of
// length 0, 1, 5 or 6 in both directories (a 5-byte content can spell "x.sql").
func VerifHarness_C06_shift() {
	verifContentLens = []int{0, 1, 5, 6}
	defer func() { verifContentLens = nil }()
	verifC06Sized(3, 1)
}

// Short contents of different lengths: two files, the first of 0..3 fully symbolic bytes in either
// directory: contents that differ only by a byte sequence a "normalising" hash input would fold
// (line endings, blanks) are different directories.
func VerifHarness_C06_lens2() {
	verifContentLens = []int{0, 1, 2, 3}
	defer func() { verifContentLens = nil }()
	verifC06Sized(2, 1)
}

func VerifHarness_C06_quick()          { verifC06(3, 4, false, false) }
func VerifHarness_C06_ignore()         { verifC06(2, 1, true, false) }
func VerifHarness_C06_ignore_witness() { verifC06(1, 1, true, true) }
func VerifHarness_C06_thorough()       { verifC06(4, 6, false, false) }
func VerifHarness_C06_ignore3()        { verifC06(3, 2, true, false) }

// verifC06Names: file names are part of the directory too. An untouched
// directory validates whatever its files are called: the first file's name is
// 1..4 fully symbolic bytes before ".sql" (a line break or a path separator
// cannot be part of a file name in a sum file line / a directory), the second
// file is fixed. The sum file is written and read back by the real code.
func verifC06Names(n int) {
	k := verifChoice("namelen", n) + 1
	name := verifString("fn", k) + ".sql"
	for i := 0; i < k; i++ {
		c := name[i]
		verifAssume(verifAnd(verifAnd(c != '\n', c != '\r'), verifAnd(c != '/', c != 0)))
	}
	verifAssume(name != "z.sql" && name != HashFileName)
	d := &MemDir{}
	verifAssert(d.WriteFile(name, []byte("A;\n")) == nil, "write file")
	verifAssert(d.WriteFile("z.sql", []byte("B;\n")) == nil, "write file")
	sum, err := d.Checksum()
	verifAssert(err == nil, "checksum")
	verifAssert(WriteSumFile(d, sum) == nil, "write sum")
	err = Validate(d)
	verifReach("validates")
	verifAssert(err == nil, "an untouched directory validates, whatever its files are called")
}

func VerifHarness_C06_names3() { verifC06Names(3) }
func VerifHarness_C06_names4() { verifC06Names(4) }

// verifC06Writers: every operation that writes to the directory leaves it valid.
// A directory of 0..2 existing files (symbolic contents) receives, in any order,
// plans written by the real Planner (WritePlan) and a checkpoint (WriteCheckpoint);
// after every single write the directory validates, and a content byte edited
// afterwards is detected.
func verifC06Writers() {
	d := &MemDir{}
	n0 := verifChoice("existing", 3)
	for i := 0; i < n0; i++ {
		verifAssert(d.WriteFile(fmt.Sprintf("%d_old.sql", i+1), []byte("O"+verifString(fmt.Sprintf("o%d", i), 1)+";\n")) == nil, "write file")
	}
	if n0 > 0 {
		sum, err := d.Checksum()
		verifAssert(err == nil, "checksum")
		verifAssert(WriteSumFile(d, sum) == nil, "write sum")
	}
	p := NewPlanner(nil, d)
	ops := [][]int{{0, 1}, {1, 0}, {0, 0}, {1}, {0}}[verifChoice("ops", 5)] // 0 = WritePlan, 1 = WriteCheckpoint
	for k, op := range ops {
		plan := &Plan{Version: fmt.Sprintf("%d", 5+k), Name: "n", Changes: []*Change{{Cmd: "C" + verifString(fmt.Sprintf("c%d", k), 1), Comment: "c"}}}
		var err error
		if op == 0 {
			err = p.WritePlan(plan)
		} else {
			err = p.WriteCheckpoint(plan, "")
		}
		verifAssert(err == nil, "the plan is written")
		verifAssert(Validate(d) == nil, "the directory validates after every write of the planner")
	}
	verifReach("validates")
	// and the sum written last still protects every file: flip one content byte
	files, err := d.Files()
	verifAssert(err == nil && len(files) > 0, "files")
	if err != nil || len(files) == 0 {
		return
	}
	victim := files[verifChoice("victim", len(files))]
	b := append([]byte(nil), victim.Bytes()...)
	k := len(b) - 3 // a byte of the statement text
	if k < 0 {
		return
	}
	nb := verifByte("newbyte")
	verifAssume(nb != b[k])
	b[k] = nb
	verifAssert(d.WriteFile(victim.Name(), b) == nil, "edit")
	err = Validate(d)
	verifReach("rejected")
	verifAssert(errors.Is(err, ErrChecksumMismatch), "an edit after the planner's last write is detected")
}

func VerifHarness_C06_writers() { verifC06Writers() }
