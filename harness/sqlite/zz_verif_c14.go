package sqlite

import (
	"context"
	"database/sql"
	"errors"
	"fmt"
	"strings"

	"ariga.io/atlas/sql/internal/sqlx"
	"ariga.io/atlas/sql/migrate"
	"ariga.io/atlas/sql/schema"
)

// C14: a dev database is refused when not empty (and then left untouched), and
// otherwise always handed back empty, whatever fails during the work.

var errVerifDev = errors.New("verif: injected dev database failure")

// vDev is the modelled dev database: how many user tables it holds.
type vDev struct {
	tables int
	ops    int
	failAt int
	log    []string // statements that took effect
	tried  []string // statements attempted (including the failing one)
}

func (d *vDev) step() bool {
	op := d.ops
	d.ops++
	return op == d.failAt
}

type vDevExec struct{ d *vDev }

func (e vDevExec) ExecContext(_ context.Context, q string, _ ...any) (sql.Result, error) {
	e.d.tried = append(e.d.tried, q)
	if e.d.step() {
		return nil, errVerifDev
	}
	e.d.log = append(e.d.log, q)
	switch {
	case strings.HasPrefix(q, "CREATE TABLE"):
		e.d.tables++
	case strings.HasPrefix(q, "DELETE FROM sqlite_master"):
		e.d.tables = 0
	}
	return nil, nil
}

func (e vDevExec) QueryContext(context.Context, string, ...any) (*sql.Rows, error) {
	return nil, errors.New("verif: queries are answered by the inspector model")
}

type vDevInspect struct {
	schema.Inspector
	d *vDev
}

func (i vDevInspect) realm() *schema.Realm {
	s := schema.New(mainFile)
	for k := 0; k < i.d.tables; k++ {
		s.AddTables(schema.NewTable(fmt.Sprintf("x%d", k)).AddColumns(schema.NewIntColumn("id", "integer")))
	}
	return schema.NewRealm(s)
}

func (i vDevInspect) InspectRealm(context.Context, *schema.InspectRealmOption) (*schema.Realm, error) {
	if i.d.step() {
		return nil, errVerifDev
	}
	return i.realm(), nil
}

func (i vDevInspect) InspectSchema(context.Context, string, *schema.InspectOptions) (*schema.Schema, error) {
	if i.d.step() {
		return nil, errVerifDev
	}
	return i.realm().Schemas[0], nil
}

func verifDevDriver(d *vDev) *Driver {
	c := &conn{ExecQuerier: vDevExec{d}}
	return &Driver{conn: c, Differ: &sqlx.Diff{DiffDriver: &diff{}}, Inspector: vDevInspect{d: d}, PlanApplier: &planApply{c}}
}

type vWriteCountDir struct {
	*migrate.MemDir
	writes int
}

func (d *vWriteCountDir) WriteFile(name string, b []byte) error {
	d.writes++
	return d.MemDir.WriteFile(name, b)
}

var verifRestore = []string{
	"PRAGMA writable_schema = 1;",
	"DELETE FROM sqlite_master WHERE type IN ('table', 'view', 'index', 'trigger');",
	"PRAGMA writable_schema = 0;",
	"VACUUM;",
}

// verifCheckDev checks the outcome of a dev-database session.
func verifCheckDev(d *vDev, initial int, err error) {
	if initial > 0 {
		verifReach("dirty")
		var nce *migrate.NotCleanError
		verifAssert(errors.As(err, &nce) || errors.Is(err, errVerifDev), "a non-empty dev database is refused")
		verifAssert(len(d.log) == 0 && d.tables == initial, "a refused dev database is left completely untouched")
		return
	}
	verifReach("clean")
	if len(d.tried) == 0 {
		// nothing was attempted (failure before the first statement): still empty
		verifAssert(d.tables == 0, "dev database still empty")
		return
	}
	// restore must be the last thing that was attempted
	restoreStarted := -1
	for i, q := range d.tried {
		if q == verifRestore[0] {
			restoreStarted = i
		}
	}
	verifAssert(restoreStarted >= 0, "the dev database is restored on every exit path")
	if restoreStarted < 0 {
		return
	}
	tail := d.tried[restoreStarted:]
	for i, q := range tail {
		verifAssert(i < len(verifRestore) && q == verifRestore[i], "nothing runs on the dev database after the restore started")
	}
	done := 0
	for _, q := range d.log {
		for _, r := range verifRestore {
			if q == r {
				done++
			}
		}
	}
	if done == len(verifRestore) {
		verifReach("restored")
		verifAssert(d.tables == 0, "the dev database is handed back empty")
	} else {
		// the restore itself failed: that must be reported
		verifReach("restore-failed")
		verifAssert(err != nil, "a failing restore is not swallowed")
	}
}

func verifC14Replay(maxFiles int) {
	initial := verifChoice("initial-tables", 3)
	nf := verifChoice("files", maxFiles) + 1
	mem := &migrate.MemDir{}
	// the last file may be unscannable (unclosed quote): a failure that is not a statement error
	broken := verifChoice("broken-last", 2) == 1
	for i := 0; i < nf; i++ {
		text := fmt.Sprintf("CREATE TABLE t%d (id int);\nCREATE TABLE u%d (id int);\n", i, i)
		if broken && i == nf-1 {
			text = fmt.Sprintf("CREATE TABLE t%d (c text DEFAULT 'abc);\n", i)
		}
		mem.WriteFile(fmt.Sprintf("%d_f.sql", i+1), []byte(text))
	}
	sum, _ := mem.Checksum()
	migrate.WriteSumFile(mem, sum)
	dir := &vWriteCountDir{MemDir: mem}
	d := &vDev{tables: initial, failAt: verifInt("failAt", -1, 4*nf+12)}
	drv := verifDevDriver(d)
	ex, err := migrate.NewExecutor(drv, dir, migrate.NopRevisionReadWriter{})
	verifAssert(err == nil, "executor")
	_, err = ex.Replay(context.Background(), migrate.StateReaderFunc(func(ctx context.Context) (*schema.Realm, error) {
		return drv.InspectRealm(ctx, nil)
	}))
	verifAssert(dir.writes == 0, "replaying a directory never writes to it")
	if err == nil {
		verifReach("replayed")
	}
	if broken && initial == 0 {
		verifAssert(err != nil, "an unscannable file fails the replay")
	}
	verifCheckDev(d, initial, err)
}

func verifC14Normalize() {
	initial := verifChoice("initial-tables", 3)
	d := &vDev{tables: initial, failAt: verifInt("failAt", -1, 14)}
	drv := verifDevDriver(d)
	s := schema.New(mainFile)
	for i := 0; i < verifChoice("tables", 2)+1; i++ {
		s.AddTables(schema.NewTable(fmt.Sprintf("t%d", i)).AddColumns(schema.NewIntColumn("id", "integer")))
	}
	for _, t := range s.Tables {
		t.SetSchema(s)
	}
	dev := &sqlx.DevDriver{Driver: drv}
	var err error
	if verifChoice("scope", 2) == 0 {
		_, err = dev.NormalizeRealm(context.Background(), schema.NewRealm(s))
	} else {
		_, err = dev.NormalizeSchema(context.Background(), s)
	}
	if err == nil {
		verifReach("normalized")
	}
	verifCheckDev(d, initial, err)
}

func VerifHarness_C14_replay()    { verifC14Replay(2) }
func VerifHarness_C14_replay3()   { verifC14Replay(3) }
func VerifHarness_C14_normalize() { verifC14Normalize() }

// verifC14Gate: the cleanliness gate itself. For every database holding 0..2
// tables with names among the revisions table's name and two user tables (in
// any order), with or without a revisions-table identity passed in, CheckClean
// accepts exactly an empty database or one that holds nothing but the
// revisions table. Names are one symbolic letter each, so "is the revisions
// table" is decided by the solver.
type vGateInspect struct {
	schema.Inspector
	names []string
}

func (i vGateInspect) InspectRealm(context.Context, *schema.InspectRealmOption) (*schema.Realm, error) {
	s := schema.New(mainFile)
	for _, n := range i.names {
		s.AddTables(schema.NewTable(n).AddColumns(schema.NewIntColumn("id", "integer")))
	}
	return schema.NewRealm(s), nil
}

func verifC14Gate() {
	n := verifChoice("tables", 3)
	var names []string
	for k := 0; k < n; k++ {
		names = append(names, verifString(fmt.Sprintf("n%d", k), 2)) // fully symbolic: no name is special
	}
	rev := verifString("rev", 2)
	var revT *migrate.TableIdent
	if verifBool("hasRevT") {
		revT = &migrate.TableIdent{Name: rev}
	}
	drv := &Driver{conn: &conn{}, Inspector: vGateInspect{names: names}}
	err := drv.CheckClean(context.Background(), revT)
	clean := n == 0 || n == 1 && revT != nil && names[0] == rev
	var nce *migrate.NotCleanError
	if clean {
		verifReach("clean")
		verifAssert(err == nil, "an empty database, or one holding only the revisions table, is clean")
	} else {
		verifReach("dirty")
		verifAssert(errors.As(err, &nce), "a database holding any user table is not clean, whatever else it holds")
	}
	// the dev-database gate proper: Snapshot refuses whatever is not empty, whatever the tables are called
	restore, err := drv.Snapshot(context.Background())
	if n == 0 {
		verifAssert(err == nil && restore != nil, "an empty dev database is accepted")
	} else {
		verifReach("refused")
		verifAssert(restore == nil && errors.As(err, &nce), "a dev database holding any table is refused")
	}
}

func VerifHarness_C14_gate() { verifC14Gate() }
