package sqlite

import (
	"context"
	"database/sql"
	"fmt"
)

// C13 (SQLite commit gate): a transaction opened with foreign keys on is committed only if it
// introduced no foreign-key violation; otherwise it is rolled back and the error reported, and
// foreign-key enforcement is switched on again either way. What `PRAGMA foreign_key_check`
// answers before and at commit is arbitrary (0..2 rows each, symbolic table letter and row id).

type verifC13Tx struct {
	sets       [][][]any
	n          int
	committed  bool
	rolledBack bool
	execs      []string
}

func (t *verifC13Tx) QueryContext(context.Context, string, ...any) (*sql.Rows, error) {
	data := t.sets[t.n]
	t.n++
	return verifMkRows([]string{"table", "rowid", "parent", "fkid"}, data)
}

func (t *verifC13Tx) ExecContext(_ context.Context, q string, _ ...any) (sql.Result, error) {
	t.execs = append(t.execs, q)
	return nil, nil
}
func (t *verifC13Tx) Commit() error   { t.committed = true; return nil }
func (t *verifC13Tx) Rollback() error { t.rolledBack = true; return nil }

type verifC13Viol struct {
	tbl string
	row int
}

func verifC13Set(tag string, n int) ([][]any, []verifC13Viol) {
	var rows [][]any
	var vs []verifC13Viol
	for i := 0; i < n; i++ {
		tbl := verifString(fmt.Sprintf("%st%d", tag, i), 1)
		verifAssume(verifOr(tbl[0] == 'a', tbl[0] == 'b'))
		row := verifInt(fmt.Sprintf("%sr%d", tag, i), 0, 1)
		rows = append(rows, []any{tbl, int64(row), "p", int64(0)})
		vs = append(vs, verifC13Viol{tbl, row})
	}
	return rows, vs
}

func VerifHarness_C13_sqlite_commit() {
	nb, na := verifChoice("before", 3), verifChoice("after", 3)
	br, bv := verifC13Set("b", nb)
	ar, av := verifC13Set("a", na)
	tx := &verifC13Tx{sets: [][][]any{br, ar}}
	ctx := context.Background()
	cm, err := CommitFunc(ctx, tx, tx, true)
	verifAssert(err == nil, "the commit function is prepared")
	if err != nil {
		return
	}
	err = cm()
	// reference: a violation present at commit that was not there before
	introduced := false
	for _, a := range av {
		found := false
		for _, b := range bv {
			found = verifOr(found, verifAnd(a.tbl == b.tbl, a.row == b.row))
		}
		introduced = verifOr(introduced, !found)
	}
	if introduced {
		verifReach("rollback")
		verifAssert(err != nil, "a transaction that introduced a foreign-key violation is refused")
		verifAssert(tx.rolledBack && !tx.committed, "a refused transaction is rolled back, not committed")
	} else {
		verifReach("commit")
		verifAssert(err == nil, "a transaction that introduced no violation commits")
		verifAssert(tx.committed && !tx.rolledBack, "it is committed")
	}
	verifAssert(len(tx.execs) == 1 && tx.execs[0] == "PRAGMA foreign_keys = on", "foreign-key enforcement is switched on again")
}
