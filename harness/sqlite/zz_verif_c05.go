package sqlite

import (
	"context"
	"database/sql"
	"errors"
	"fmt"
	"strings"

	"ariga.io/atlas/sql/migrate"
	"ariga.io/atlas/sql/schema"
)

// C05 (code-level core): the rebuild path of the SQLite planner copies every
// surviving column from itself (or its old name), never from anything else,
// and the ALTER path is taken only for changes it can express.

type verifColSpec struct {
	name    string
	kind    int // 0 unchanged, 1 added, 2 modified, 3 renamed, 4 generated (unchanged)
	oldName string
}

func verifC05(ncols int) { verifC05p(ncols, DefaultPlan) }

// verifC05DB: a connected planner's database. Whatever the planner asks while planning, the
// answer is arbitrary (no row or one row): the plan may not touch other tables because of it.
type verifC05DB struct{ rows int }

func (d verifC05DB) QueryContext(context.Context, string, ...any) (*sql.Rows, error) {
	var data [][]any
	for i := 0; i < d.rows; i++ {
		data = append(data, []any{int64(1)})
	}
	return verifMkRows([]string{"x"}, data)
}

func (verifC05DB) ExecContext(context.Context, string, ...any) (sql.Result, error) {
	return nil, errors.New("verif: planning executes nothing")
}

func verifC05p(ncols int, planner migrate.PlanApplier) {
	sch := schema.New("main")
	t := schema.NewTable("t").SetSchema(sch)
	var specs []verifColSpec
	var changes []schema.Change
	var autoCol *schema.Column
	for i := 0; i < ncols; i++ {
		name := string(rune('a' + i))
		c := schema.NewIntColumn(name, "integer")
		c.Type.Null = verifBool(fmt.Sprintf("null%d", i))
		if verifChoice(fmt.Sprintf("default%d", i), 2) == 1 {
			c.SetDefault(&schema.Literal{V: "7"})
		}
		sp := verifColSpec{name: name, kind: verifChoice(fmt.Sprintf("kind%d", i), 5)}
		switch sp.kind {
		case 0:
			// an unchanged column may be the AUTOINCREMENT key: its values are data like any other
			if i == 0 && verifChoice("autoincrement", 2) == 1 {
				c.AddAttrs(&AutoIncrement{})
				c.Type.Null = false
				c.Default = nil
				autoCol = c
			}
		case 1:
			changes = append(changes, &schema.AddColumn{C: c})
		case 2:
			old := schema.NewIntColumn(name, "integer")
			old.Type.Null = verifBool(fmt.Sprintf("oldnull%d", i))
			if verifChoice(fmt.Sprintf("olddefault%d", i), 2) == 1 {
				old.SetDefault(&schema.Literal{V: "3"})
			}
			kind := schema.ChangeKind(verifInt(fmt.Sprintf("change%d", i), 1, 255))
			changes = append(changes, &schema.ModifyColumn{From: old, To: c, Change: kind})
		case 3:
			sp.oldName = "o" + name
			changes = append(changes, &schema.RenameColumn{From: schema.NewIntColumn(sp.oldName, "integer"), To: c})
		case 4:
			c.SetGeneratedExpr(&schema.GeneratedExpr{Expr: "1", Type: "VIRTUAL"})
			c.Default = nil
		}
		t.AddColumns(c)
		specs = append(specs, sp)
	}
	if autoCol != nil {
		t.SetPrimaryKey(schema.NewPrimaryKey(autoCol).AddAttrs(&AutoIncrement{}))
	}
	// optionally a dropped column of the old table, and an index change
	dropped := verifChoice("dropped", 2) == 1
	if dropped {
		changes = append(changes, &schema.DropColumn{C: schema.NewIntColumn("x", "integer")})
	}
	if verifChoice("addindex", 2) == 1 {
		idx := schema.NewIndex("i").AddColumns(t.Columns[0])
		t.AddIndexes(idx)
		changes = append(changes, &schema.AddIndex{I: idx})
	}
	if len(changes) == 0 {
		return
	}
	modify := &schema.ModifyTable{T: t, Changes: changes}
	inPlace := alterable(modify)
	plan, err := planner.PlanChanges(context.Background(), "p", []schema.Change{modify})
	if inPlace {
		verifReach("alter")
		verifAssert(err == nil, "changes judged alterable are planned in place without error")
		for _, c := range plan.Changes {
			verifAssert(!strings.HasPrefix(c.Cmd, "DROP TABLE") && !strings.HasPrefix(c.Cmd, "INSERT"), "the in-place path never rebuilds the table")
		}
		return
	}
	verifReach("rebuild")
	verifAssert(err == nil, "rebuild is planned without error")
	if err != nil {
		return
	}
	for _, c := range plan.Changes {
		if strings.HasPrefix(c.Cmd, "DROP TABLE") {
			verifAssert(c.Cmd == "DROP TABLE `t`", "the only table a rebuild drops is the old table itself")
		}
	}
	// locate the statements of the 12-step procedure
	iCreate, iInsert, iDrop, iRename := -1, -1, -1, -1
	for i, c := range plan.Changes {
		switch {
		case strings.HasPrefix(c.Cmd, "CREATE TABLE `new_t`"):
			iCreate = i
		case strings.HasPrefix(c.Cmd, "INSERT INTO `new_t`"):
			iInsert = i
		case c.Cmd == "DROP TABLE `t`":
			iDrop = i
		case c.Cmd == "ALTER TABLE `new_t` RENAME TO `t`":
			iRename = i
		}
	}
	verifAssert(iCreate >= 0 && iDrop > iCreate && iRename > iDrop, "rebuild creates the new table, drops the old one, then renames, in that order")
	// expected copy list
	var wantTo, wantFrom []string
	for i, sp := range specs {
		c := t.Columns[i]
		switch sp.kind {
		case 0, 2:
			wantTo = append(wantTo, "`"+sp.name+"`")
			wantFrom = append(wantFrom, "`"+sp.name+"`")
		case 3:
			wantTo = append(wantTo, "`"+sp.name+"`")
			wantFrom = append(wantFrom, "`"+sp.oldName+"`")
		}
		_ = c
	}
	if len(wantTo) == 0 {
		verifAssert(iInsert == -1, "nothing to copy when no column survives")
		return
	}
	verifAssert(iInsert > iCreate && iInsert < iDrop, "rows are copied after the new table exists and before the old one is dropped")
	if iInsert < 0 {
		return
	}
	cmd := plan.Changes[iInsert].Cmd
	const pre = "INSERT INTO `new_t` ("
	rest := cmd[len(pre):]
	k := strings.Index(rest, ") SELECT ")
	verifAssert(k > 0 && strings.HasSuffix(rest, " FROM `t`"), "copy statement has the INSERT ... SELECT ... FROM old shape")
	to := strings.Split(rest[:k], ", ")
	from := verifSplitTop(strings.TrimSuffix(rest[k+len(") SELECT "):], " FROM `t`"))
	verifAssert(len(to) == len(wantTo) && len(from) == len(to), "exactly the surviving, non-generated columns are copied, positionally paired")
	for i := range wantTo {
		if i >= len(to) || i >= len(from) {
			break
		}
		verifAssert(to[i] == wantTo[i], "copy target is the surviving column")
		ifnull := "IFNULL(" + wantFrom[i] + ", 7) AS " + wantTo[i]
		verifAssert(from[i] == wantFrom[i] || from[i] == ifnull, "a surviving column is copied from itself (or its old name), possibly defaulting NULLs")
		if from[i] == ifnull {
			verifReach("ifnull")
			c := t.Columns[0]
			for j, sp := range specs {
				if "`"+sp.name+"`" == wantTo[i] {
					c = t.Columns[j]
					verifAssert(sp.kind == 2, "NULL defaulting only for modified columns")
				}
			}
			verifAssert(!c.Type.Null && c.Default != nil, "NULLs are replaced by the default only when the column became NOT NULL with a default")
		}
	}
}

// verifSplitTop splits on ", " outside parentheses.
func verifSplitTop(s string) []string {
	var out []string
	depth, start := 0, 0
	for i := 0; i < len(s); i++ {
		switch s[i] {
		case '(':
			depth++
		case ')':
			depth--
		case ',':
			if depth == 0 && i+1 < len(s) && s[i+1] == ' ' {
				out = append(out, s[start:i])
				start = i + 2
			}
		}
	}
	return append(out, s[start:])
}

func VerifHarness_C05_quick()    { verifC05(2) }
func VerifHarness_C05_thorough() { verifC05(3) }
func VerifHarness_C05_conn() {
	verifC05p(2, &planApply{conn: &conn{ExecQuerier: verifC05DB{rows: verifChoice("rows", 2)}}})
}

// verifC05Multi: several tables change in one plan, in any order: a table that
// must be rebuilt (or is dropped) anywhere in the plan requires the whole plan
// to run with foreign-key enforcement off, otherwise the rebuild's DROP TABLE
// cascades into the rows of other tables. Every DROP TABLE statement must lie
// between `PRAGMA foreign_keys = off` (first) and `= on` (last).
func verifC05Multi() {
	sch := schema.New("main")
	mk := func(name string) *schema.Table {
		t := schema.NewTable(name).SetSchema(sch)
		t.AddColumns(schema.NewIntColumn("id", "integer"), schema.NewIntColumn("v", "integer"))
		return t
	}
	kinds := []int{verifChoice("k0", 4), verifChoice("k1", 4), verifChoice("k2", 4)} // per table: 0 untouched, 1 in place, 2 rebuild, 3 drop
	order := [][]int{{0, 1, 2}, {2, 1, 0}, {1, 0, 2}, {1, 2, 0}}[verifChoice("order", 4)]
	var changes []schema.Change
	needOff := false
	for _, ti := range order {
		t := mk(fmt.Sprintf("t%d", ti))
		switch kinds[ti] {
		case 1:
			idx := schema.NewIndex(fmt.Sprintf("i%d", ti)).AddColumns(t.Columns[1])
			t.AddIndexes(idx)
			changes = append(changes, &schema.ModifyTable{T: t, Changes: []schema.Change{&schema.AddIndex{I: idx}}})
		case 2:
			changes = append(changes, &schema.ModifyTable{T: t, Changes: []schema.Change{&schema.DropColumn{C: schema.NewIntColumn("x", "integer")}}})
			needOff = true
		case 3:
			changes = append(changes, &schema.DropTable{T: t})
			needOff = true
		}
	}
	if len(changes) == 0 {
		return
	}
	plan, err := DefaultPlan.PlanChanges(context.Background(), "p", changes)
	verifAssert(err == nil, "the change set is planned")
	if err != nil {
		return
	}
	verifReach("planned")
	n := len(plan.Changes)
	first, last := plan.Changes[0].Cmd, plan.Changes[n-1].Cmd
	if needOff {
		verifReach("wrapped")
		verifAssert(first == "PRAGMA foreign_keys = off" && last == "PRAGMA foreign_keys = on", "a plan that drops or rebuilds a table runs with foreign-key enforcement off")
	}
	off := false
	for _, c := range plan.Changes {
		switch {
		case c.Cmd == "PRAGMA foreign_keys = off":
			off = true
		case c.Cmd == "PRAGMA foreign_keys = on":
			off = false
		case strings.HasPrefix(c.Cmd, "DROP TABLE"):
			verifAssert(off, "no table is dropped while foreign keys are enforced")
		}
	}
}

func VerifHarness_C05_multi() { verifC05Multi() }
