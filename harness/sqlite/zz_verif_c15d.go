package sqlite

import (
	"fmt"
	"strings"

	"ariga.io/atlas/sql/schema"
)

// C15 (document level): a schema is written with the real MarshalHCL, the
// bytes are evaluated with the real EvalHCLBytes (hclparse, schemahcl,
// specutil, the dialect's spec converters), and the result is compared with
// the original by the real differ in both directions; marshalling the result
// again must give the same bytes.

var verifStrings = []string{"x", "it's", "a\"b", "back\\slash", "${v}", "%{if}", "two words", "multi\nline", "", " ", " lead", "trail "}

// verifDocSchema builds the schema of one family: part 0 varies the type of
// column c over the catalogue (and its nullability), part 1 the strings that
// travel through HCL quoting (defaults), numeric defaults and column
// attributes, part 2 the table-level objects (index, foreign key, check).
func verifDocSchema(part int) *schema.Schema {
	s := schema.New("main")
	t1 := schema.NewTable("t1").SetSchema(s)
	t1id := schema.NewIntColumn("id", "integer")
	t1.AddColumns(t1id).SetPrimaryKey(schema.NewPrimaryKey(t1id))
	t0 := schema.NewTable("t0").SetSchema(s)
	id := schema.NewIntColumn("id", "integer")
	// SQLite reports a primary-key column as nullable unless it is declared NOT NULL
	id.Type.Null = verifBool("pknull")
	pk := schema.NewPrimaryKey(id)
	t0.AddColumns(id).SetPrimaryKey(pk)
	d := schema.NewStringColumn("d", "text")
	n := schema.NewIntColumn("n", "integer")
	switch part {
	case 0:
		ct := verifSQLiteType()
		raw, err := FormatType(ct)
		if err != nil {
			verifAssume(false)
		}
		c := schema.NewColumn("c").SetType(ct).SetNull(verifBool("null"))
		c.Type.Raw = raw
		t0.AddColumns(c)
	case 1:
		str := verifStrings[verifChoice("str", len(verifStrings))]
		switch verifChoice("where", 7) {
		case 0:
			d.SetDefault(&schema.Literal{V: "'" + strings.ReplaceAll(str, "'", "''") + "'"})
		case 1:
			d.SetDefault(&schema.RawExpr{X: "(upper('a'))"}).SetNull(true)
		case 2:
			n.SetDefault(&schema.Literal{V: fmt.Sprint(verifInt("numval", 0, 3))})
		case 3:
			n.SetDefault(&schema.Literal{V: "-1"})
		case 4:
			id.AddAttrs(&AutoIncrement{})
			pk.AddAttrs(&AutoIncrement{})
		case 5:
			g := schema.NewIntColumn("g", "integer").SetGeneratedExpr(&schema.GeneratedExpr{Expr: "(n + 1)", Type: []string{"STORED", "VIRTUAL"}[verifChoice("gentype", 2)]})
			t0.AddColumns(g)
		case 6:
			t0.AddAttrs(&WithoutRowID{})
		}
	}
	t0.AddColumns(d, n)
	if part == 2 {
		all := verifChoice("objects", 4) // 0 index, 1 foreign key, 2 check, 3 all of them
		if all == 0 || all == 3 {
			idx := schema.NewIndex("i0").SetUnique(all == 3 || verifBool("unique"))
			idx.AddParts(&schema.IndexPart{C: d, Desc: all == 3 || verifBool("desc")})
			if all != 3 && verifBool("exprpart") {
				idx.AddParts(&schema.IndexPart{SeqNo: 1, X: &schema.RawExpr{X: "(n + 1)"}, Desc: verifBool("exprdesc")})
			}
			if all == 3 || verifBool("where") {
				idx.AddAttrs(&IndexPredicate{P: "n > 0"})
			}
			t0.AddIndexes(idx)
		}
		if all == 1 || all == 3 {
			fk := schema.NewForeignKey("f0").SetTable(t0).AddColumns(n).SetRefTable(t1).AddRefColumns(t1id)
			fk.SetOnDelete([]schema.ReferenceOption{schema.NoAction, schema.Restrict, schema.Cascade, schema.SetNull, schema.SetDefault}[verifChoice("ondelete", 5)])
			if verifBool("onupdate") {
				fk.SetOnUpdate(schema.Cascade)
			}
			t0.AddForeignKeys(fk)
		}
		if all == 2 || all == 3 {
			ck := schema.NewCheck().SetName("k0").SetExpr([]string{"(n > 0)", "(d <> 'it''s')", "(d LIKE '%\\%')"}[verifChoice("ckexpr", 3)])
			t0.AddChecks(ck)
			// unnamed checks, possibly several of them (they all share the empty name)
			nun := verifChoice("unnamed", 3)
			for k := 0; k < nun; k++ {
				t0.AddChecks(schema.NewCheck().SetExpr([]string{"(n < 100)", "(n <> 7)"}[k]))
			}
		}
	}
	s.AddTables(t1, t0)
	return s
}

func verifDocRoundTrip(s *schema.Schema) {
	buf, err := MarshalHCL(s)
	verifAssert(err == nil, "the schema marshals")
	if err != nil {
		return
	}
	verifObserve("hcl", string(buf))
	var s2 schema.Schema
	err = EvalHCLBytes(buf, &s2, nil)
	if err != nil {
		verifAssert(false, "the marshalled document evaluates: "+err.Error())
		return
	}
	verifReach("evaluated")
	c1, err := DefaultDiff.SchemaDiff(s, &s2)
	verifAssert(err == nil, "diff original -> evaluated")
	for _, c := range c1 {
		verifAssert(false, "no change between the schema and its HCL image: "+verifChangeText(c))
	}
	c2, err := DefaultDiff.SchemaDiff(&s2, s)
	verifAssert(err == nil, "diff evaluated -> original")
	for _, c := range c2 {
		verifAssert(false, "no change between the HCL image and the schema: "+verifChangeText(c))
	}
	buf2, err := MarshalHCL(&s2)
	verifAssert(err == nil, "the evaluated schema marshals")
	verifAssert(string(buf2) == string(buf), "marshalling the evaluated schema gives the same bytes")
}

func verifChangeText(c schema.Change) string {
	switch c := c.(type) {
	case *schema.ModifyTable:
		out := "ModifyTable " + c.T.Name + ":"
		for _, cc := range c.Changes {
			out += " " + verifChangeText(cc)
		}
		return out
	case *schema.ModifyColumn:
		return "ModifyColumn " + c.To.Name
	case *schema.ModifyIndex:
		return "ModifyIndex " + c.To.Name
	case *schema.ModifyForeignKey:
		return "ModifyForeignKey " + c.To.Symbol
	}
	return fmt.Sprintf("%T", c)
}

func VerifHarness_C15_sqlite_doc_types()   { verifDocRoundTrip(verifDocSchema(0)) }
func VerifHarness_C15_sqlite_doc_strings() { verifDocRoundTrip(verifDocSchema(1)) }
func VerifHarness_C15_sqlite_doc_objects() { verifDocRoundTrip(verifDocSchema(2)) }
