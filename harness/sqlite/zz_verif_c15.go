package sqlite

import (
	"ariga.io/atlas/sql/schema"
)

// C15 (type slice): FormatType / ParseType fix-point for every SQLite type.

var verifSQLiteTypes = []string{
	"bool", "boolean", "blob", "int2", "int8", "int", "uint64", "integer", "tinyint", "smallint", "mediumint", "bigint",
	"unsigned big int", "real", "double", "double precision", "float", "numeric", "decimal", "char", "character", "varchar",
	"varying character", "nchar", "native character", "nvarchar", "text", "clob", "json", "jsonb", "date", "datetime", "time",
	"timestamp", "uuid",
	// names unknown to the driver are user-defined types: kept exactly as declared
	"GEOMETRY", "MyType", "point",
}

func VerifHarness_C15_sqlite() {
	name := verifSQLiteTypes[verifChoice("t", len(verifSQLiteTypes))]
	raw := name
	switch verifChoice("args", 3) {
	case 1:
		raw += "(" + []string{"1", "10", "255"}[verifChoice("a", 3)] + ")"
	case 2:
		raw += "(10,2)"
	}
	if verifChoice("upper", 2) == 1 {
		raw = verifUpper(raw)
	}
	t, err := ParseType(raw)
	verifAssert(err == nil, "catalogue type parses")
	s, err := FormatType(t)
	verifAssert(err == nil, "parsed type formats")
	verifReach("formatted")
	t1, err := ParseType(s)
	verifAssert(err == nil, "a formatted type parses")
	s1, err := FormatType(t1)
	verifAssert(err == nil, "the parsed type formats")
	verifObserve("fmt", s)
	verifAssert(s1 == s, "format(parse(format(t))) == format(t)")
	// the family must be stable too
	verifAssert(verifFamily(t) == verifFamily(t1), "type family is stable under format/parse")
}

func verifUpper(s string) string {
	b := []byte(s)
	for i, c := range b {
		if c >= 'a' && c <= 'z' {
			b[i] = c - 32
		}
	}
	return string(b)
}

func verifFamily(t schema.Type) string {
	switch t.(type) {
	case *schema.BoolType:
		return "bool"
	case *schema.BinaryType:
		return "binary"
	case *schema.IntegerType:
		return "int"
	case *schema.FloatType:
		return "float"
	case *schema.DecimalType:
		return "decimal"
	case *schema.StringType:
		return "string"
	case *schema.JSONType:
		return "json"
	case *schema.TimeType:
		return "time"
	case *schema.UUIDType:
		return "uuid"
	case *UserDefinedType:
		return "user"
	}
	return "other"
}
