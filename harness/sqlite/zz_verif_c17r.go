package sqlite

import (
	"context"
	"strings"

	"ariga.io/atlas/sql/migrate"
	"ariga.io/atlas/sql/schema"
)

// C17 (planner half, restore content): the reverse of a destructive change
// re-creates the dropped object with everything that defined it. The defining
// values (default, index predicate, check expression) are solver-chosen
// markers over disjoint digit alphabets, so "the reverse mentions the value"
// is decided for every value at once; flags (unique, descending, nullable) are
// explored by forking.

func verifDigits(tag string, lo, hi byte) string {
	s := verifString(tag, 2)
	for i := 0; i < len(s); i++ {
		verifAssume(s[i] >= lo && s[i] <= hi)
	}
	return s
}

func VerifHarness_C17_sqlite_restore() {
	sch := schema.New("main")
	mDef, mPred, mChk, mNew := verifDigits("def", '1', '2'), verifDigits("pred", '3', '4'), verifDigits("chk", '5', '6'), verifDigits("new", '7', '8')
	unique := verifBool("unique")
	desc := verifBool("desc")
	null := verifBool("null")
	hasPred := true && verifBool("haspred")
	t0 := schema.NewTable("t0").SetSchema(sch)
	id := schema.NewIntColumn("id", "integer")
	c1 := schema.NewIntColumn("c1", "integer").SetNull(null).SetDefault(&schema.Literal{V: mDef})
	c2 := schema.NewIntColumn("c2", "integer")
	t0.AddColumns(id, c1, c2).SetPrimaryKey(schema.NewPrimaryKey(id))
	i0 := schema.NewIndex("i0").SetUnique(unique)
	i0.AddParts(&schema.IndexPart{C: c1, Desc: desc}, &schema.IndexPart{C: c2, SeqNo: 1})
	if hasPred {
		i0.AddAttrs(&IndexPredicate{P: "c2 > " + mPred})
	}
	t0.AddIndexes(i0)
	k0 := schema.NewCheck().SetName("k0").SetExpr("c2 < " + mChk)
	t0.AddChecks(k0)
	t1 := schema.NewTable("t1").SetSchema(sch).AddColumns(schema.NewIntColumn("id", "integer"))
	t1.SetPrimaryKey(schema.NewPrimaryKey(t1.Columns[0]))
	fk := schema.NewForeignKey("f0").SetTable(t0).AddColumns(c2).SetRefTable(t1).AddRefColumns(t1.Columns[0]).SetOnDelete(schema.Cascade)
	t0.AddForeignKeys(fk)
	set := verifChoice("set", 5)
	var changes []schema.Change
	wantIndex, wantCol, wantChk, wantFK, wantOldDef := false, false, false, false, false
	switch set {
	case 0:
		changes = []schema.Change{&schema.DropTable{T: t0}}
		wantIndex, wantCol, wantChk, wantFK = true, true, true, true
	case 1:
		changes = []schema.Change{&schema.ModifyTable{T: t0, Changes: []schema.Change{&schema.DropIndex{I: i0}}}}
		wantIndex = true
	case 2:
		to := schema.NewIntColumn("c1", "integer").SetNull(null).SetDefault(&schema.Literal{V: mNew})
		t0.Columns[1] = to
		i0.Parts[0].C = to
		changes = []schema.Change{&schema.ModifyTable{T: t0, Changes: []schema.Change{&schema.ModifyColumn{From: c1, To: to, Change: schema.ChangeDefault}}}}
		wantOldDef = true
	case 3:
		changes = []schema.Change{&schema.ModifyTable{T: t0, Changes: []schema.Change{&schema.DropCheck{C: k0}}}}
		wantChk = true
	case 4:
		changes = []schema.Change{&schema.ModifyTable{T: t0, Changes: []schema.Change{&schema.DropForeignKey{F: fk}}}}
		wantFK = true
	case 5:
		changes = []schema.Change{&schema.ModifyTable{T: t0, Changes: []schema.Change{&schema.DropColumn{C: c1}, &schema.DropIndex{I: i0}}}}
		wantCol = true
	}
	// sets 3 and 4: an inspected UNIQUE column constraint (sqlite_autoindex_*, origin "u")
	// is re-created under a derived name; the reverse must drop what the forward creates.
	if set >= 3 {
		wantIndex, wantCol, wantChk, wantFK, wantOldDef = false, false, false, false, false
		auto := schema.NewIndex("sqlite_autoindex_t0_1").SetUnique(true).AddColumns(c2)
		auto.AddAttrs(&IndexOrigin{O: "u"})
		if set == 3 {
			t0.AddIndexes(auto)
			changes = []schema.Change{&schema.AddTable{T: t0}}
		} else {
			changes = []schema.Change{&schema.ModifyTable{T: t0, Changes: []schema.Change{&schema.AddIndex{I: auto}}}}
		}
	}
	empty := ""
	p, err := DefaultPlan.PlanChanges(context.Background(), "p", changes, func(o *migrate.PlanOptions) { o.SchemaQualifier = &empty })
	verifAssert(err == nil, "destructive change set is planned")
	if err != nil {
		return
	}
	if !p.Reversible {
		verifReach("irreversible")
		return
	}
	verifReach("reversible")
	var all []string
	for _, c := range p.Changes {
		rs, err := c.ReverseStmts()
		verifAssert(err == nil, "reverse statements are well formed")
		all = append(all, rs...)
		// an index that is created is dropped under the same name by its reverse
		for _, kw := range []string{"CREATE INDEX ", "CREATE UNIQUE INDEX "} {
			if strings.HasPrefix(c.Cmd, kw) {
				name := c.Cmd[len(kw):]
				if k := strings.Index(name, " "); k >= 0 {
					name = name[:k]
				}
				verifAssert(len(rs) == 1 && rs[0] == "DROP INDEX "+name, "the reverse of CREATE INDEX drops the index that was created")
			}
		}
	}
	rev := strings.Join(all, "\n")
	verifObserve("reverse", rev)
	if wantIndex {
		k := strings.Index(rev, "INDEX `i0`")
		verifAssert(k >= 0, "the dropped index is re-created by the reverse")
		if k >= 0 {
			st := rev[k:]
			if j := strings.Index(st, "\n"); j >= 0 {
				st = st[:j]
			}
			pre := rev[:k]
			if j := strings.LastIndex(pre, "\n"); j >= 0 {
				pre = pre[j+1:]
			}
			verifAssert(strings.Contains(pre, "UNIQUE") == unique, "the index is re-created unique iff it was unique")
			verifAssert(strings.Contains(st, "`c1`") && strings.Contains(st, "`c2`") && strings.Index(st, "`c1`") < strings.Index(st, "`c2`"), "the index is re-created on its columns in order")
			verifAssert(strings.Contains(st, "DESC") == desc, "the index is re-created descending iff it was")
			verifAssert(strings.Contains(st, "c2 > "+mPred) == hasPred, "the index is re-created with its predicate iff it had one")
		}
	}
	if wantCol {
		k := strings.Index(rev, "`c1` integer")
		verifAssert(k >= 0, "the dropped column is re-created with its type")
		if k >= 0 {
			st := rev[k:]
			if j := strings.IndexAny(st, ",\n"); j >= 0 {
				st = st[:j]
			}
			verifAssert(strings.Contains(st, "NOT NULL") == !null, "the column is re-created with its nullability")
			verifAssert(strings.Contains(st, "DEFAULT "+mDef), "the column is re-created with its default")
		}
	}
	if wantOldDef {
		verifAssert(strings.Contains(rev, "DEFAULT "+mDef) && !strings.Contains(rev, mNew), "the reverse of a default change restores the old default")
	}
	if wantChk {
		verifAssert(strings.Contains(rev, "`k0`") && strings.Contains(rev, "c2 < "+mChk), "the dropped check is re-created with its name and expression")
	}
	if wantFK {
		verifAssert(strings.Contains(rev, "`f0`") && strings.Contains(rev, "REFERENCES `t1` (`id`)") && strings.Contains(rev, "ON DELETE CASCADE"), "the dropped foreign key is re-created with its reference and action")
	}
}
