package sqlite

import (
	"context"
	"fmt"
	"strings"

	"ariga.io/atlas/sql/internal/sqlx"
	"ariga.io/atlas/sql/schema"
)

// C03 (statement-text slice): what the planner emits in a CREATE TABLE
// statement is what the inspection recovers from the stored statement text:
// CHECK constraints (names, expressions), foreign-key constraint names,
// AUTOINCREMENT and generated-column expressions.

// verifBalancedExpr: the expression is something SQLite could accept inside
// CHECK ( ... ): parentheses balanced and never negative, quotes closed.
func verifBalancedExpr(e string) bool {
	depth := 0
	var quote byte
	for i := 0; i < len(e); i++ {
		c := e[i]
		switch {
		case quote != 0:
			if c == quote {
				quote = 0
			}
		case c == '\'' || c == '"' || c == '`':
			quote = c
		case c == '(':
			depth++
		case c == ')':
			depth--
			if depth < 0 {
				return false
			}
		}
	}
	return depth == 0 && quote == 0
}

func verifWord(tag string, n int) string {
	s := verifString(tag, n)
	for i := 0; i < n; i++ {
		c := s[i]
		verifAssume(c >= 'a' && c <= 'z' || c >= 'A' && c <= 'Z' || c >= '0' && c <= '9' || c == '_')
	}
	return s
}

// verifExprBytes: symbolic expression text over the characters that matter to
// the recovery code (identifiers, blanks, parentheses, the three quote styles,
// operators); a top-level comma is not a valid CHECK expression.
func verifExprBytes(tag string, n int) string {
	s := verifString(tag, n)
	for i := 0; i < n; i++ {
		c := s[i]
		verifAssume(c >= 'a' && c <= 'c' || c == '1' || c == ' ' || c == '(' || c == ')' || c == '\'' || c == '"' || c == '`' || c == '>' || c == '+' || c == '_')
	}
	return s
}

// verifExprBytesQ: the quoting alphabet only (letters, the single quote, the backslash - an ordinary
// character in SQLite strings - parentheses and a blank), so that longer texts stay tractable.
func verifExprBytesQ(tag string, n int) string {
	s := verifString(tag, n)
	for i := 0; i < n; i++ {
		c := s[i]
		verifAssume(verifOr(verifOr(c == 'a', c == '\''), verifOr(verifOr(c == '\\', c == ' '), verifOr(c == '(', c == ')'))))
	}
	return s
}

// verifC03: part selects what varies (3 = two CHECK constraints of 3 and 2 bytes over the quoting alphabet): 0 CHECK constraints, 1 foreign-key names
// (+ autoincrement), 2 generated expression.
func verifC03(part, exprLen int, mode string) {
	sch := schema.New("main")
	ref := schema.NewTable("r").SetSchema(sch).AddColumns(schema.NewIntColumn("id", "integer"))
	t := schema.NewTable("t").SetSchema(sch)
	id := schema.NewIntColumn("id", "integer")
	a := schema.NewIntColumn("a", "integer")
	t.AddColumns(id, a)
	auto := part == 1 && verifChoice("autoincrement", 2) == 1
	pk := schema.NewPrimaryKey(id)
	if auto {
		id.AddAttrs(&AutoIncrement{})
		pk.AddAttrs(&AutoIncrement{})
	}
	t.SetPrimaryKey(pk)
	// checks
	nchecks := 1
	if part == 3 {
		nchecks = 2
	}
	if part == 0 {
		nchecks = 1
		if exprLen <= 2 {
			nchecks = verifChoice("checks", 2) + 1
		}
	}
	type chk struct{ name, expr string }
	var checks []chk
	special := false
	for k := 0; k < nchecks; k++ {
		c := chk{}
		if verifChoice(fmt.Sprintf("named%d", k), 2) == 1 {
			c.name = "k" + verifWord(fmt.Sprintf("cn%d", k), 1)
		}
		c.expr = "a>1"
		if part == 0 {
			c.expr = "a" + verifExprBytes(fmt.Sprintf("ce%d", k), exprLen)
		}
		if part == 3 {
			c.expr = "a" + verifExprBytesQ(fmt.Sprintf("ce%d", k), exprLen-k)
		}
		verifAssume(verifBalancedExpr(c.expr))
		for i := 0; i < len(c.expr); i++ {
			special = verifOr(special, c.expr[i] == '`')
		}
		checks = append(checks, c)
		t.AddChecks(schema.NewCheck().SetName(c.name).SetExpr(c.expr))
	}
	switch mode {
	case "main":
		if verifKnown("C03-backtick-in-check") {
			verifAssume(!special)
		}
	case "witness":
		verifAssume(special)
	}
	// a foreign key, named or not
	fkName := ""
	hasFK := part == 1 && verifChoice("fk", 2) == 1
	if hasFK {
		if verifChoice("fk-named", 2) == 1 {
			fkName = "f" + verifWord("fn", 1)
		}
		t.AddForeignKeys(schema.NewForeignKey(fkName).SetTable(t).AddColumns(a).SetRefTable(ref).AddRefColumns(ref.Columns[0]))
	}
	// a generated column
	genExpr := ""
	hasGen := part == 2
	if hasGen {
		genExpr = "a" + verifExprBytes("ge", exprLen)
		verifAssume(verifBalancedExpr(genExpr))
		g := schema.NewIntColumn("g", "integer").SetGeneratedExpr(&schema.GeneratedExpr{Expr: genExpr, Type: "STORED"})
		t.AddColumns(g)
	}
	plan, err := DefaultPlan.PlanChanges(context.Background(), "p", []schema.Change{&schema.AddTable{T: t}})
	verifAssert(err == nil && len(plan.Changes) >= 1, "table is planned")
	if err != nil {
		return
	}
	stmt := plan.Changes[0].Cmd
	verifObserve("stmt", stmt)
	// ---- what pragma-based inspection knows, plus the stored statement ----
	t2 := schema.NewTable("t").SetSchema(sch)
	id2, a2 := schema.NewIntColumn("id", "integer"), schema.NewIntColumn("a", "integer")
	t2.AddColumns(id2, a2).SetPrimaryKey(schema.NewPrimaryKey(id2))
	var g2 *schema.Column
	if hasGen {
		g2 = schema.NewIntColumn("g", "integer")
		t2.AddColumns(g2)
	}
	if hasFK {
		t2.AddForeignKeys(schema.NewForeignKey("0").SetTable(t2).AddColumns(a2).SetRefTable(ref).AddRefColumns(ref.Columns[0]))
	}
	t2.AddAttrs(&CreateStmt{S: stmt})
	verifAssert(fillChecks(t2) == nil, "checks are recovered without error")
	verifAssert(fillConstName(t2) == nil, "constraint names are recovered without error")
	verifAssert(autoinc(t2) == nil, "autoincrement is recovered without error")
	if hasGen {
		verifAssert(setGenExpr(t2, g2, 3) == nil, "generated expression is recovered without error")
	}
	verifReach("recovered")
	// compare
	var got []*schema.Check
	for _, at := range t2.Attrs {
		if c, ok := at.(*schema.Check); ok {
			got = append(got, c)
		}
	}
	verifAssert(len(got) == len(checks), "as many CHECK constraints are recovered as were emitted")
	for k := range checks {
		if k < len(got) {
			verifAssert(got[k].Name == checks[k].name, "a recovered CHECK has the emitted name")
			verifAssert(got[k].Expr == "("+strings.TrimSpace(checks[k].expr)+")", "a recovered CHECK has the emitted expression")
		}
	}
	if hasFK {
		want := fkName
		if want == "" {
			want = "0"
		}
		verifAssert(t2.ForeignKeys[0].Symbol == want, "a named foreign key recovers its name, an unnamed one keeps its pragma id")
	}
	verifAssert(sqlx.Has(id2.Attrs, &AutoIncrement{}) == auto, "AUTOINCREMENT is recovered iff it was emitted")
	if hasGen {
		var x schema.GeneratedExpr
		verifAssert(sqlx.Has(g2.Attrs, &x) && x.Expr == sqlx.MayWrap(genExpr), "the generated expression is recovered as emitted")
	}
}

func VerifHarness_C03_checks2() { verifC03(0, 2, "main") }
func VerifHarness_C03_checks3() { verifC03(0, 3, "main") }
func VerifHarness_C03_checksq() { verifC03(3, 3, "main") }
func VerifHarness_C03_names()   { verifC03(1, 0, "main") }
func VerifHarness_C03_gen2()    { verifC03(2, 2, "main") }
func VerifHarness_C03_gen3()    { verifC03(2, 3, "main") }
func VerifHarness_C03_witness() { verifC03(0, 3, "witness") }

// verifC03Types: the SQL export of a column type. A column inspected with the
// declared type `raw` is exported as FormatType of its parsed type; creating
// the table again stores that text as the declared type, and inspecting it
// parses that text. The real differ must see no change between the two, and
// a type the driver does not know (user-defined) keeps its exact spelling.
func verifC03Types() {
	t0 := verifSQLiteType()
	s0, err := FormatType(t0)
	verifAssert(err == nil, "the inspected type is exported")
	if err != nil {
		return
	}
	t1, err := ParseType(s0)
	verifAssert(err == nil, "the exported type is inspected again")
	if err != nil {
		return
	}
	sch := schema.New("main")
	mk := func(t schema.Type, raw string) *schema.Table {
		c := schema.NewColumn("c").SetType(t)
		c.Type.Raw = raw
		return schema.NewTable("t").SetSchema(sch).AddColumns(schema.NewIntColumn("id", "integer"), c)
	}
	raw0, _ := FormatType(t0)
	a, b := mk(t0, raw0), mk(t1, s0)
	verifReach("recovered")
	c1, err := DefaultDiff.TableDiff(a, b)
	verifAssert(err == nil && len(c1) == 0, "no change between the inspected column and its re-created image")
	c2, err := DefaultDiff.TableDiff(b, a)
	verifAssert(err == nil && len(c2) == 0, "no change between the re-created image and the inspected column")
	if u, ok := t0.(*UserDefinedType); ok {
		verifAssert(s0 == u.T, "a user-defined type is exported with its exact spelling")
	}
}

func VerifHarness_C03_types() { verifC03Types() }
