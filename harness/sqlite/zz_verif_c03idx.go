package sqlite

import (
	"context"
	"database/sql"
	"database/sql/driver"
	"errors"
	"fmt"
	"io"
	"strings"

	"ariga.io/atlas/sql/schema"
)

// C03 (index slice): an index emitted by the planner and stored by SQLite as
// the text of its CREATE INDEX statement is recovered by the real inspection
// code (inspect.indexes -> addIndexes, indexInfo) with the same key parts
// (columns, expressions, direction), uniqueness and predicate, and planning the
// recovered index again yields the same statement.
//
// What SQLite answers to the two pragma queries is modelled here (it is the
// engine's behaviour, not Atlas's): pragma_index_list gives name / unique /
// origin "c" / partial and sqlite_master.sql holds the statement verbatim;
// pragma_index_xinfo gives the column name (NULL for an expression) and the
// direction of every key part.

// ---- a *sql.Rows the engine can interpret -------------------------------------------------
//
// Under the symbolic engine the methods of *sql.Rows are substituted (-stub)
// by the functions below, which read a plain row set kept beside the (empty)
// sql.Rows value. Natively the same row set is served by a tiny database/sql
// driver, so that the real sql.Rows is exercised on replay.

type verifRowSet struct {
	cols []string
	data [][]any
	pos  int
}

type verifRowsEntry struct {
	r *sql.Rows
	s *verifRowSet
}

var verifRowsReg []verifRowsEntry

func verifRowsOf(r *sql.Rows) *verifRowSet {
	for _, e := range verifRowsReg {
		if e.r == r {
			return e.s
		}
	}
	panic("verif: unknown *sql.Rows")
}

func verifMkRows(cols []string, data [][]any) (*sql.Rows, error) {
	if verifSymbolic() {
		r := new(sql.Rows)
		verifRowsReg = append(verifRowsReg, verifRowsEntry{r, &verifRowSet{cols: cols, data: data}})
		return r, nil
	}
	db := sql.OpenDB(verifConnector{&verifRowSet{cols: cols, data: data}})
	return db.QueryContext(context.Background(), "q")
}

func verifRowsNext(r *sql.Rows) bool {
	s := verifRowsOf(r)
	if s.pos >= len(s.data) {
		return false
	}
	s.pos++
	return true
}

func verifRowsClose(r *sql.Rows) error { return nil }
func verifRowsErr(r *sql.Rows) error   { return nil }

func verifRowsScan(r *sql.Rows, dest ...any) error {
	s := verifRowsOf(r)
	if s.pos == 0 || s.pos > len(s.data) {
		return errors.New("sql: Scan called without calling Next")
	}
	row := s.data[s.pos-1]
	if len(dest) != len(row) {
		return fmt.Errorf("sql: expected %d destination arguments in Scan, not %d", len(row), len(dest))
	}
	for i, d := range dest {
		switch d := d.(type) {
		case *sql.NullString:
			if row[i] == nil {
				d.String, d.Valid = "", false
			} else {
				d.String, d.Valid = row[i].(string), true
			}
		case *sql.NullBool:
			if row[i] == nil {
				d.Bool, d.Valid = false, false
			} else {
				d.Bool, d.Valid = row[i].(bool), true
			}
		case *bool:
			*d = row[i].(bool)
		case *string:
			*d = row[i].(string)
		case *int:
			*d = int(row[i].(int64))
		default:
			return fmt.Errorf("verif: unsupported Scan destination %T", d)
		}
	}
	return nil
}

type verifConnector struct{ s *verifRowSet }

func (c verifConnector) Connect(context.Context) (driver.Conn, error) { return verifConn{c.s}, nil }
func (c verifConnector) Driver() driver.Driver                        { return nil }

type verifConn struct{ s *verifRowSet }

func (verifConn) Prepare(string) (driver.Stmt, error) { return nil, errors.New("not supported") }
func (verifConn) Close() error                        { return nil }
func (verifConn) Begin() (driver.Tx, error)           { return nil, errors.New("not supported") }
func (c verifConn) QueryContext(context.Context, string, []driver.NamedValue) (driver.Rows, error) {
	return &verifDrvRows{s: c.s}, nil
}

type verifDrvRows struct{ s *verifRowSet }

func (r *verifDrvRows) Columns() []string { return r.s.cols }
func (r *verifDrvRows) Close() error      { return nil }
func (r *verifDrvRows) Next(dest []driver.Value) error {
	if r.s.pos >= len(r.s.data) {
		return io.EOF
	}
	for i, v := range r.s.data[r.s.pos] {
		dest[i] = v
	}
	r.s.pos++
	return nil
}

// verifIdxQuerier answers the two index queries of the inspection.
type verifIdxQuerier struct {
	list  [][]any // pragma_index_list + sqlite_master.sql
	xinfo [][]any // pragma_index_xinfo of the one index
}

func (q *verifIdxQuerier) QueryContext(_ context.Context, query string, _ ...any) (*sql.Rows, error) {
	switch {
	case strings.Contains(query, "pragma_index_list"):
		return verifMkRows([]string{"name", "unique", "origin", "partial", "sql"}, q.list)
	case strings.Contains(query, "pragma_index_xinfo"):
		return verifMkRows([]string{"name", "desc"}, q.xinfo)
	}
	return nil, fmt.Errorf("verif: unexpected query %q", query)
}

func (q *verifIdxQuerier) ExecContext(context.Context, string, ...any) (sql.Result, error) {
	return nil, errors.New("verif: unexpected exec")
}

// verifExprAlphabet: like verifExprBytes, but the alphabet constraint is one
// solver term per byte (no forking on the alternatives).
func verifExprAlphabet(tag string, n int) string {
	s := verifString(tag, n)
	for i := 0; i < n; i++ {
		c := s[i]
		ok := verifAnd(c >= 'a', c <= 'c')
		for _, x := range []byte("1 ()'\"`>+_") {
			ok = verifOr(ok, c == x)
		}
		verifAssume(ok)
	}
	return s
}

func verifTopComma(e string) bool {
	depth := 0
	var quote byte
	for i := 0; i < len(e); i++ {
		c := e[i]
		switch {
		case quote != 0:
			if c == quote {
				quote = 0
			}
		case c == '\'' || c == '"' || c == '`':
			quote = c
		case c == '(':
			depth++
		case c == ')':
			depth--
		case c == ',' && depth == 0:
			return true
		}
	}
	return false
}

// verifStmtKeyParts returns the top-level comma separated key parts of
// CREATE [UNIQUE] INDEX `i` ON `t` (<parts>) [WHERE ...].
func verifStmtKeyParts(stmt string) ([]string, bool) {
	const on = " ON `t` ("
	k := strings.Index(stmt, on)
	if k < 0 {
		return nil, false
	}
	rest := stmt[k+len(on):]
	depth := 1
	var quote byte
	start := 0
	var out []string
	for i := 0; i < len(rest); i++ {
		c := rest[i]
		switch {
		case quote != 0:
			if c == quote {
				quote = 0
			}
		case c == '\'' || c == '"' || c == '`':
			quote = c
		case c == '(':
			depth++
		case c == ')':
			depth--
			if depth == 0 {
				return append(out, strings.TrimSpace(rest[start:i])), true
			}
		case c == ',' && depth == 1:
			out = append(out, strings.TrimSpace(rest[start:i]))
			start = i + 1
		}
	}
	return nil, false
}

func verifC03Idx(nparts, exprLen int) {
	sch := schema.New("main")
	t := schema.NewTable("t").SetSchema(sch)
	cols := []*schema.Column{schema.NewIntColumn("a", "integer"), schema.NewIntColumn("b", "integer"), schema.NewIntColumn("c", "integer")}
	t.AddColumns(cols...)
	idx := schema.NewIndex("i").SetUnique(verifBool("unique"))
	n := verifChoice("parts", nparts) + 1
	type part struct {
		col  string
		expr string
		desc bool
	}
	var parts []part
	anyExpr := false
	for k := 0; k < n; k++ {
		p := part{desc: verifBool(fmt.Sprintf("desc%d", k))}
		if verifChoice(fmt.Sprintf("kind%d", k), 2) == 0 {
			p.col = cols[k].Name
			idx.AddParts(&schema.IndexPart{SeqNo: k + 1, C: cols[k], Desc: p.desc})
		} else {
			p.expr = "a" + verifExprAlphabet(fmt.Sprintf("x%d", k), exprLen)
			verifAssume(verifBalancedExpr(p.expr) && p.expr[len(p.expr)-1] != ' ')
			anyExpr = true
			idx.AddParts(&schema.IndexPart{SeqNo: k + 1, X: &schema.RawExpr{X: p.expr}, Desc: p.desc})
		}
		parts = append(parts, p)
	}
	pred := ""
	if verifChoice("partial", 2) == 1 {
		pred = "c" + verifExprAlphabet("w", exprLen)
		verifAssume(verifBalancedExpr(pred) && pred[len(pred)-1] != ' ')
		idx.AddAttrs(&IndexPredicate{P: pred})
	}
	if anyExpr {
		verifReach("expression")
	}
	t.AddIndexes(idx)
	plan, err := DefaultPlan.PlanChanges(context.Background(), "p", []schema.Change{&schema.ModifyTable{T: t, Changes: []schema.Change{&schema.AddIndex{I: idx}}}})
	verifAssert(err == nil && len(plan.Changes) == 1, "index is planned as one statement")
	if err != nil || len(plan.Changes) != 1 {
		return
	}
	stmt := plan.Changes[0].Cmd
	verifObserve("stmt", stmt)
	// ---- what SQLite reports for it ----
	// SQLite derives the key parts from the statement it stored, not from what the
	// planner meant: the direction of each part is read off the emitted text.
	stmtParts, ok := verifStmtKeyParts(stmt)
	verifAssert(ok && len(stmtParts) == len(parts), "the emitted statement has one key part per index part")
	if !ok || len(stmtParts) != len(parts) {
		return
	}
	q := &verifIdxQuerier{list: [][]any{{"i", idx.Unique, "c", pred != "", stmt}}}
	for k, p := range parts {
		desc := strings.HasSuffix(stmtParts[k], " DESC")
		if p.col != "" {
			q.xinfo = append(q.xinfo, []any{p.col, desc})
		} else {
			q.xinfo = append(q.xinfo, []any{nil, desc})
		}
	}
	t2 := schema.NewTable("t").SetSchema(sch)
	t2.AddColumns(schema.NewIntColumn("a", "integer"), schema.NewIntColumn("b", "integer"), schema.NewIntColumn("c", "integer"))
	ins := &inspect{&conn{ExecQuerier: q}}
	err = ins.indexes(context.Background(), t2)
	verifAssert(err == nil, "indexes are inspected without error")
	if err != nil {
		return
	}
	verifReach("recovered")
	verifAssert(len(t2.Indexes) == 1, "exactly the one index is recovered")
	if len(t2.Indexes) != 1 {
		return
	}
	got := t2.Indexes[0]
	verifAssert(got.Name == "i" && got.Unique == idx.Unique, "name and uniqueness are recovered")
	verifAssert(len(got.Parts) == len(parts), "as many key parts are recovered as were emitted")
	for k, p := range parts {
		if k >= len(got.Parts) {
			break
		}
		g := got.Parts[k]
		verifAssert(g.Desc == p.desc, "direction of a key part is recovered")
		if p.col != "" {
			verifAssert(g.C != nil && g.C.Name == p.col && g.X == nil, "a column key part is recovered as that column")
			continue
		}
		x, ok := g.X.(*schema.RawExpr)
		verifAssert(ok && g.C == nil, "an expression key part is recovered as an expression")
		if ok {
			verifObserve("expr", x.X)
			verifAssert(x.X == p.expr || x.X == "("+p.expr+")", "an expression key part is recovered with the emitted text")
		}
	}
	var gp IndexPredicate
	has := false
	for _, at := range got.Attrs {
		if a, ok := at.(*IndexPredicate); ok {
			gp, has = *a, true
		}
	}
	verifAssert(has == (pred != ""), "a predicate is recovered iff one was emitted")
	if has {
		verifAssert(gp.P == pred, "the predicate is recovered with the emitted text")
	}
	// second round: planning the recovered index gives the same statement
	plan2, err := DefaultPlan.PlanChanges(context.Background(), "p", []schema.Change{&schema.ModifyTable{T: t2, Changes: []schema.Change{&schema.AddIndex{I: got}}}})
	verifAssert(err == nil && len(plan2.Changes) == 1, "the recovered index is planned")
	if err == nil && len(plan2.Changes) == 1 {
		verifAssert(plan2.Changes[0].Cmd == stmt, "planning the recovered index yields the statement it was created with")
	}
}

func VerifHarness_C03_index2() { verifC03Idx(2, 2) }
func VerifHarness_C03_index3() { verifC03Idx(2, 3) }
