package destructive

import (
	"context"
	"fmt"

	"ariga.io/atlas/sql/migrate"
	"ariga.io/atlas/sql/schema"
	"ariga.io/atlas/sql/sqlcheck"
)

// C18 (analyzer + span tracking): a file is a sequence of statements, each
// with the schema changes it causes; the destructive analyzer must flag
// exactly the statements that drop a table / non-virtual column which was
// not created earlier in the same file.

type verifTab struct {
	exists  bool
	created bool // current incarnation created by this file
	cols    [2]bool
	colNew  [2]bool // column incarnation created by this file
}

func verifC18(steps int, mode string) {
	sch := schema.New("main")
	var tabs [2]verifTab
	// what exists before the file
	for i := range tabs {
		tabs[i].exists = verifChoice(fmt.Sprintf("pre_t%d", i), 2) == 1
		if tabs[i].exists {
			for j := 0; j < 2; j++ {
				tabs[i].cols[j] = i == 1 || verifChoice(fmt.Sprintf("pre_t%dc%d", i, j), 2) == 1
			}
		}
	}
	mkTable := func(i int, st verifTab) *schema.Table {
		t := schema.NewTable(fmt.Sprintf("t%d", i)).SetSchema(sch)
		for j := 0; j < 2; j++ {
			if st.cols[j] {
				t.AddColumns(schema.NewIntColumn(fmt.Sprintf("c%d", j), "int"))
			}
		}
		return t
	}
	type want struct {
		code string
		pos  int
	}
	var wants []want
	f := &sqlcheck.File{}
	// The listed finding C18-order-insensitive-spans is identified exactly: the
	// span of an object is computed over the whole file (create resets it to
	// "added", drop ors "dropped" in), so the verdict for a drop statement is
	// "report unless the final span is added|dropped". A drop statement belongs
	// to the finding iff that order-insensitive verdict differs from the
	// position-aware one; all other statements are checked exactly.
	const spanAdded, spanDropped = 1, 2
	var tabSpan [2]int
	var colSpan [2]int
	type dropStmt struct {
		code    string
		pos     int
		spec    bool // position-aware verdict: reported?
		table   int  // table index for DS102, -1 otherwise
		col     int  // column index for DS103, -1 otherwise
		virtual bool
	}
	var drops []dropStmt
	nsteps := verifChoice("steps", steps) + 1
	for s := 0; s < nsteps; s++ {
		pos := 10*s + 1
		stmt := &migrate.Stmt{Pos: pos, Text: fmt.Sprintf("stmt %d", s)}
		op := verifChoice(fmt.Sprintf("op%d", s), 9)
		var ch schema.Change
		switch {
		case op == 0 || op == 1: // CREATE TABLE t<op> (c0, c1)
			i := op
			verifAssume(!tabs[i].exists)
			tabSpan[i] = spanAdded
			if i == 0 {
				colSpan[0], colSpan[1] = spanAdded, spanAdded
			}
			tabs[i] = verifTab{exists: true, created: true, cols: [2]bool{true, true}, colNew: [2]bool{true, true}}
			ch = &schema.AddTable{T: mkTable(i, tabs[i])}
		case op == 2 || op == 3: // DROP TABLE t<op-2>
			i := op - 2
			verifAssume(tabs[i].exists)
			ch = &schema.DropTable{T: mkTable(i, tabs[i])}
			if !tabs[i].created {
				wants = append(wants, want{"DS102", pos})
			}
			drops = append(drops, dropStmt{code: "DS102", pos: pos, spec: !tabs[i].created, table: i, col: -1})
			tabSpan[i] |= spanDropped
			tabs[i] = verifTab{}
		case op == 4 || op == 5: // ALTER TABLE t0 ADD COLUMN c<op-4>
			j := op - 4
			verifAssume(tabs[0].exists && !tabs[0].cols[j])
			colSpan[j] = spanAdded
			tabs[0].cols[j], tabs[0].colNew[j] = true, true
			t := mkTable(0, tabs[0])
			c, _ := t.Column(fmt.Sprintf("c%d", j))
			ch = &schema.ModifyTable{T: t, Changes: []schema.Change{&schema.AddColumn{C: c}}}
		case op == 6 || op == 7: // ALTER TABLE t0 DROP COLUMN c<op-6>
			j := op - 6
			verifAssume(tabs[0].exists && tabs[0].cols[j])
			t := mkTable(0, tabs[0])
			c, _ := t.Column(fmt.Sprintf("c%d", j))
			virtual := verifChoice(fmt.Sprintf("virtual%d", s), 2) == 1
			if virtual {
				c.SetGeneratedExpr(&schema.GeneratedExpr{Expr: "1", Type: "VIRTUAL"})
			}
			ch = &schema.ModifyTable{T: t, Changes: []schema.Change{&schema.DropColumn{C: c}}}
			if !tabs[0].colNew[j] && !virtual {
				wants = append(wants, want{"DS103", pos})
			}
			drops = append(drops, dropStmt{code: "DS103", pos: pos, spec: !tabs[0].colNew[j] && !virtual, table: -1, col: j, virtual: virtual})
			colSpan[j] |= spanDropped
			tabs[0].cols[j], tabs[0].colNew[j] = false, false
		default: // ALTER TABLE t0 ADD INDEX (purely additive)
			verifAssume(tabs[0].exists && tabs[0].cols[0])
			t := mkTable(0, tabs[0])
			c, _ := t.Column("c0")
			ch = &schema.ModifyTable{T: t, Changes: []schema.Change{&schema.AddIndex{I: schema.NewIndex("i").AddColumns(c)}}}
		}
		f.Changes = append(f.Changes, &sqlcheck.Change{Stmt: stmt, Changes: schema.Changes{ch}})
	}
	az, err := New(nil)
	verifAssert(err == nil, "analyzer")
	var reports []sqlcheck.Report
	err = az.Analyze(context.Background(), &sqlcheck.Pass{
		File:     f,
		Reporter: sqlcheck.ReportWriterFunc(func(r sqlcheck.Report) { reports = append(reports, r) }),
	})
	var got []want
	for _, r := range reports {
		for _, d := range r.Diagnostics {
			got = append(got, want{d.Code, d.Pos})
		}
	}
	if len(wants) > 0 {
		verifReach("destructive")
	} else {
		verifReach("additive")
	}
	// statements whose order-insensitive verdict differs from the position-aware one
	excused := map[int]bool{}
	for _, d := range drops {
		model := false
		if d.table >= 0 {
			model = tabSpan[d.table] != spanAdded|spanDropped
		} else {
			model = colSpan[d.col] != spanAdded|spanDropped && !d.virtual
		}
		if model != d.spec {
			excused[d.pos] = true
		}
	}
	switch mode {
	case "main":
		if len(excused) > 0 {
			if verifKnown("C18-order-insensitive-spans") {
				verifReach("known-region")
			} else {
				excused = map[int]bool{}
			}
		}
	case "witness":
		verifAssume(len(excused) > 0)
		excused = map[int]bool{}
	}
	anyExcused := len(excused) > 0
	for _, w := range wants {
		if excused[w.pos] {
			continue
		}
		found := false
		for _, g := range got {
			if g == w {
				found = true
			}
		}
		verifAssert(found, "a destructive statement is reported at its position: "+w.code)
	}
	for _, g := range got {
		if excused[g.pos] {
			continue
		}
		found := false
		for _, w := range wants {
			if g == w {
				found = true
			}
		}
		verifAssert(found, "a statement that drops nothing pre-existing is not reported: "+g.code)
	}
	verifAssert((err != nil) == (len(got) > 0), "the analyzer fails exactly when it reports a diagnostic")
	if !anyExcused {
		verifAssert((err != nil) == (len(wants) > 0), "the analyzer fails exactly when the file is destructive")
	}
}

func VerifHarness_C18_quick()    { verifC18(3, "main") }
func VerifHarness_C18_thorough() { verifC18(5, "main") }
func VerifHarness_C18_witness()  { verifC18(3, "witness") }
