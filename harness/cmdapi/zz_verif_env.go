package cmdapi

// Two environments behind one interface: the model world (symbolic engine,
// function substitutions) and the real CLI on a real SQLite file (native replay).

import (
	"context"
	"database/sql"
	"fmt"
	"io"
	"os"
	"path/filepath"

	"ariga.io/atlas/sql/migrate"
	_ "github.com/mattn/go-sqlite3"
	"github.com/spf13/cobra"
)

type verifShape struct {
	nf, ns             int
	directive          []string
	failFile, failStmt int
	ckpt               int // 1-based index of the file tagged as checkpoint, 0 = none
	extra              int // 1-based index of the file that holds one more statement, 0 = none
}

func (sh verifShape) fileContent(i int) string {
	content := ""
	if sh.ckpt == i+1 {
		content = "-- atlas:checkpoint\n"
	}
	if sh.directive[i] != "" {
		content += "-- atlas:txmode " + sh.directive[i] + "\n"
	}
	if content != "" {
		content += "\n"
	}
	for j := 0; j < sh.ns; j++ {
		id := fmt.Sprintf("S%d_%d", i, j)
		content += verifStmtSQL(id, i == sh.failFile && j == sh.failStmt) + ";\n"
	}
	if sh.extra == i+1 {
		content += verifStmtSQL(fmt.Sprintf("S%d_%d", i, sh.ns), false) + ";\n"
	}
	return content
}

type verifSnapshot struct {
	journal  []string
	revs     []verifRev
	revTable bool
	openTx   bool
}

type verifRev struct {
	version        string
	applied, total int
	baseline       bool
}

type verifEnv interface {
	setDir(sh verifShape)
	apply(txMode string, dryRun bool, count int, baseline string) error
	snapshot() verifSnapshot
	setCrash(at int) // the process dies at store event `at` (-1: never)
	close()
}

func verifNewEnv() verifEnv {
	if verifSymbolic() {
		return &verifModelEnv{w: &vWorld{failAt: -1, crashAt: -1}}
	}
	return verifNewNativeEnv()
}

// ---- model environment ----

type verifModelEnv struct{ w *vWorld }

func (e *verifModelEnv) setDir(sh verifShape) {
	d := &migrate.MemDir{}
	for i := 0; i < sh.nf; i++ {
		if err := d.WriteFile(fmt.Sprintf("%d_f.sql", i+1), []byte(sh.fileContent(i))); err != nil {
			panic(err)
		}
	}
	sum, err := d.Checksum()
	if err != nil {
		panic(err)
	}
	if err := migrate.WriteSumFile(d, sum); err != nil {
		panic(err)
	}
	e.w.dir = d
}

func (e *verifModelEnv) apply(txMode string, dryRun bool, count int, baseline string) error {
	w := e.w
	w.ops = 0
	ctx := context.WithValue(context.Background(), verifWorldKey{}, w)
	cmd := &cobra.Command{}
	cmd.SetContext(ctx)
	flags := migrateApplyFlags{url: "sqlite://verif", dirURL: "mem://verif", txMode: txMode, dryRun: dryRun, allowDirty: baseline == "", baselineVersion: baseline}
	var args []string
	if count > 0 {
		args = []string{fmt.Sprint(count)}
	}
	return migrateApplyRun(cmd, args, flags, &Env{}, &MigrateReport{})
}

func (e *verifModelEnv) snapshot() verifSnapshot {
	s := verifSnapshot{journal: append([]string(nil), e.w.db.journal...), revTable: e.w.db.revTable, openTx: e.w.tx != nil}
	for _, r := range e.w.db.revs {
		s.revs = append(s.revs, verifRev{r.Version, r.Applied, r.Total, r.Type == migrate.RevisionTypeBaseline})
	}
	return s
}

func (e *verifModelEnv) close() {}

func (e *verifModelEnv) setCrash(at int) {
	e.w.crashAt = at
	if at < 0 {
		// the process is gone: whatever transaction was open is rolled back
		e.w.tx = nil
		e.w.crashed = false
	}
}

// ---- native environment: real command, real SQLite file ----

type verifNativeEnv struct {
	root, dbPath, dirPath string
	crash                 bool
}

func (e *verifNativeEnv) setCrash(at int) {
	verifRegisterCrashDriver()
	verifCrashCtl.Lock()
	verifCrashCtl.at, verifCrashCtl.n, verifCrashCtl.dead, verifCrashCtl.armed = at, 0, false, false
	verifCrashCtl.Unlock()
	e.crash = at >= 0
}

func verifNewNativeEnv() *verifNativeEnv {
	root, err := os.MkdirTemp("", "verif-c13-")
	if err != nil {
		panic(err)
	}
	e := &verifNativeEnv{root: root, dbPath: filepath.Join(root, "db.sqlite"), dirPath: filepath.Join(root, "migrations")}
	db := e.open()
	defer db.Close()
	if _, err := db.Exec("CREATE TABLE journal (id text)"); err != nil {
		panic(err)
	}
	return e
}

func (e *verifNativeEnv) open() *sql.DB {
	db, err := sql.Open("sqlite3", "file:"+e.dbPath+"?_fk=1")
	if err != nil {
		panic(err)
	}
	return db
}

func (e *verifNativeEnv) setDir(sh verifShape) {
	os.RemoveAll(e.dirPath)
	if err := os.MkdirAll(e.dirPath, 0o755); err != nil {
		panic(err)
	}
	for i := 0; i < sh.nf; i++ {
		if err := os.WriteFile(filepath.Join(e.dirPath, fmt.Sprintf("%d_f.sql", i+1)), []byte(sh.fileContent(i)), 0o644); err != nil {
			panic(err)
		}
	}
	d, err := migrate.NewLocalDir(e.dirPath)
	if err != nil {
		panic(err)
	}
	sum, err := d.Checksum()
	if err != nil {
		panic(err)
	}
	if err := migrate.WriteSumFile(d, sum); err != nil {
		panic(err)
	}
}

func (e *verifNativeEnv) apply(txMode string, dryRun bool, count int, baseline string) error {
	cmd := migrateApplyCmd()
	scheme := "sqlite"
	if e.crash {
		scheme = "verifcrash"
	}
	args := []string{"--dir", "file://" + e.dirPath, "--url", scheme + "://" + e.dbPath + "?_fk=1", "--tx-mode", txMode}
	if baseline != "" {
		args = append(args, "--baseline", baseline)
	} else {
		args = append(args, "--allow-dirty")
	}
	if dryRun {
		args = append(args, "--dry-run")
	}
	if count > 0 {
		args = append(args, fmt.Sprint(count))
	}
	cmd.SetArgs(args)
	cmd.SetOut(io.Discard)
	cmd.SetErr(io.Discard)
	cmd.SilenceErrors = true
	return cmd.ExecuteContext(context.Background())
}

func (e *verifNativeEnv) snapshot() verifSnapshot {
	db := e.open()
	defer db.Close()
	var s verifSnapshot
	rows, err := db.Query("SELECT id FROM journal ORDER BY rowid")
	if err != nil {
		panic(err)
	}
	for rows.Next() {
		var id string
		rows.Scan(&id)
		s.journal = append(s.journal, id)
	}
	rows.Close()
	var n int
	db.QueryRow("SELECT count(*) FROM sqlite_master WHERE name = 'atlas_schema_revisions'").Scan(&n)
	s.revTable = n > 0
	if s.revTable {
		rows, err := db.Query("SELECT version, applied, total, type FROM atlas_schema_revisions ORDER BY version")
		if err != nil {
			panic(err)
		}
		for rows.Next() {
			var r verifRev
			var typ int
			rows.Scan(&r.version, &r.applied, &r.total, &typ)
			r.baseline = migrate.RevisionType(typ) == migrate.RevisionTypeBaseline
			s.revs = append(s.revs, r)
		}
		rows.Close()
	}
	return s
}

func (e *verifNativeEnv) close() { os.RemoveAll(e.root) }
