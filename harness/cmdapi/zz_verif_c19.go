package cmdapi

import (
	"ariga.io/atlas/schemahcl"
	"ariga.io/atlas/sql/schema"
)

// C19 (project policy): the diff skip policy that reaches the differ is the one
// the project file declares - the env's own `skip` block when it has one,
// otherwise the project-level one - whatever else the env's `diff` block holds
// (driver-specific children such as concurrent_index). Five skippable kinds are
// symbolic booleans on both levels; the resulting DiffOptions are asked, through
// the real Skipped, about each kind.
func verifSkip(tag string) *SkipChanges {
	return &SkipChanges{
		DropTable:      verifBool(tag + "_drop_table"),
		DropColumn:     verifBool(tag + "_drop_column"),
		DropIndex:      verifBool(tag + "_drop_index"),
		DropForeignKey: verifBool(tag + "_drop_fk"),
		ModifyColumn:   verifBool(tag + "_modify_column"),
	}
}

func VerifHarness_C19_policy() {
	global := &Diff{SkipChanges: verifSkip("g")}
	var env *Diff
	var effective *SkipChanges
	switch verifChoice("env", 5) {
	case 0: // no diff block on the env
		effective = global.SkipChanges
	case 1: // an empty diff block
		env = &Diff{}
		effective = global.SkipChanges
	case 2: // only driver-specific configuration
		env = &Diff{}
		env.Extra.Children = []*schemahcl.Resource{{Type: "concurrent_index"}}
		effective = global.SkipChanges
	case 3: // its own skip block
		env = &Diff{SkipChanges: verifSkip("e")}
		effective = env.SkipChanges
	case 4: // its own skip block and driver-specific configuration
		env = &Diff{SkipChanges: verifSkip("e")}
		env.Extra.Children = []*schemahcl.Resource{{Type: "concurrent_index"}}
		effective = env.SkipChanges
	}
	d := env.Extend(global)
	verifAssert(d != nil, "a policy is in effect")
	opts := &schema.DiffOptions{}
	for _, o := range d.Options() {
		o(opts)
	}
	verifReach("policy")
	verifAssert(opts.Skipped(&schema.DropTable{}) == effective.DropTable, "drop_table is skipped exactly when the effective policy says so")
	verifAssert(opts.Skipped(&schema.DropColumn{}) == effective.DropColumn, "drop_column is skipped exactly when the effective policy says so")
	verifAssert(opts.Skipped(&schema.DropIndex{}) == effective.DropIndex, "drop_index is skipped exactly when the effective policy says so")
	verifAssert(opts.Skipped(&schema.DropForeignKey{}) == effective.DropForeignKey, "drop_foreign_key is skipped exactly when the effective policy says so")
	verifAssert(opts.Skipped(&schema.ModifyColumn{}) == effective.ModifyColumn, "modify_column is skipped exactly when the effective policy says so")
	verifAssert(!opts.Skipped(&schema.AddTable{}) && !opts.Skipped(&schema.AddColumn{}), "kinds the policy does not mention are never skipped")
}
