package cmdapi

import (
	"fmt"
)

func verifJoin(js []string) string {
	s := ""
	for _, j := range js {
		s += j + ","
	}
	return s
}

var verifTxModes = []string{txModeFile, txModeAll, txModeNone}

// C13: a failing statement; atomicity per transaction mode; fix and re-run.
func verifC13(maxF, maxS int, mode13 string) {
	nf := verifChoice("files", maxF) + 1
	ns := verifChoice("stmts", maxS) + 1
	mode := verifTxModes[verifChoice("txmode", 3)]
	sh := verifShape{nf: nf, ns: ns, directive: make([]string, nf)}
	mixed := false
	if mode != txModeAll {
		for i := range sh.directive {
			sh.directive[i] = []string{"", txModeNone, txModeFile}[verifChoice(fmt.Sprintf("directive%d", i), 3)]
			if sh.directive[i] == txModeFile && mode == txModeNone {
				mixed = true
			}
		}
	}
	// Region of the listed finding C13-file-directive-under-none: a file asking
	// for `txmode file` while the command runs with --tx-mode none.
	switch mode13 {
	case "main":
		if mixed && verifKnown("C13-file-directive-under-none") {
			return
		}
	case "witness":
		verifAssume(mixed)
	}
	sh.failFile = verifChoice("fail-file", nf)
	sh.failStmt = verifChoice("fail-stmt", ns)
	env := verifNewEnv()
	defer env.close()
	env.setDir(sh)
	err := env.apply(mode, false, 0, "")
	verifAssert(err != nil, "a failing statement fails the command")
	got := env.snapshot()
	effMode := func(i int) string {
		if sh.directive[i] != "" {
			return sh.directive[i]
		}
		return mode
	}
	var want []string
	if mode != txModeAll {
		for i := 0; i < sh.failFile; i++ {
			for j := 0; j < ns; j++ {
				want = append(want, fmt.Sprintf("S%d_%d", i, j))
			}
		}
		if effMode(sh.failFile) == txModeNone {
			for j := 0; j < sh.failStmt; j++ {
				want = append(want, fmt.Sprintf("S%d_%d", sh.failFile, j))
			}
		}
	}
	verifReach("failed-" + mode)
	verifObserve("journal", verifJoin(got.journal))
	verifAssert(verifJoin(got.journal) == verifJoin(want), "after a failure the database holds exactly what the transaction mode promises")
	for _, r := range got.revs {
		n := 0
		for _, j := range got.journal {
			if len(j) > 1 && j[1] == r.version[0]-1 {
				n++
			}
		}
		verifAssert(r.applied == n, "the revision table records exactly the statements whose effect is in the database")
	}
	// fix the file and re-run: same final state as a run without failure
	sh.failFile, sh.failStmt = -1, -1
	env.setDir(sh)
	err = env.apply(mode, false, 0, "")
	verifAssert(err == nil, "after fixing the file the command completes")
	final := env.snapshot()
	var all []string
	for i := 0; i < nf; i++ {
		for j := 0; j < ns; j++ {
			all = append(all, fmt.Sprintf("S%d_%d", i, j))
		}
	}
	verifAssert(verifJoin(final.journal) == verifJoin(all), "fix and re-run reaches the state of a run without failure (every statement once, in order)")
	verifAssert(len(final.revs) == nf, "after the re-run every file has a revision")
	for _, r := range final.revs {
		verifAssert(r.applied == r.total && r.total == ns, "after the re-run every file is recorded as fully applied")
	}
}

// verifC13AllDirective: under --tx-mode all a per-file txmode directive is an
// error. Whatever position the offending file has, the command fails and the
// database is exactly as before the command: the files executed before the
// directive was met live in the one global transaction, which must not commit.
func verifC13AllDirective() {
	nf := verifChoice("files", 3) + 1
	ns := verifChoice("stmts", 2) + 1
	sh := verifShape{nf: nf, ns: ns, directive: make([]string, nf), failFile: -1, failStmt: -1}
	bad := verifChoice("directive-file", nf)
	sh.directive[bad] = []string{txModeNone, txModeFile}[verifChoice("directive", 2)]
	env := verifNewEnv()
	defer env.close()
	env.setDir(sh)
	err := env.apply(txModeAll, false, 0, "")
	verifReach("rejected")
	verifAssert(err != nil, "a txmode directive under --tx-mode all fails the command")
	got := env.snapshot()
	verifObserve("journal", verifJoin(got.journal))
	verifAssert(len(got.journal) == 0, "in all mode a failing command leaves the database exactly as before: nothing of the earlier files is committed")
	verifAssert(len(got.revs) == 0, "in all mode a failing command leaves no revision behind")
}

func VerifHarness_C13_alldirective() { verifC13AllDirective() }

// verifC13Grow: the fix of a failed file also appends a statement to it (the
// statement count of a partially applied file changes between the runs). The
// re-run must complete, record the file with its new total, and a further run
// must find nothing to do.
func verifC13Grow() {
	nf, ns := 2, 2
	mode := []string{txModeNone, txModeFile}[verifChoice("txmode", 2)]
	sh := verifShape{nf: nf, ns: ns, directive: make([]string, nf)}
	sh.failFile = verifChoice("fail-file", nf)
	sh.failStmt = verifChoice("fail-stmt", ns)
	env := verifNewEnv()
	defer env.close()
	env.setDir(sh)
	err := env.apply(mode, false, 0, "")
	verifAssert(err != nil, "a failing statement fails the command")
	grown := sh.failFile
	sh.failFile, sh.failStmt = -1, -1
	sh.extra = grown + 1
	env.setDir(sh)
	err = env.apply(mode, false, 0, "")
	verifAssert(err == nil, "after fixing (and extending) the file the command completes")
	final := env.snapshot()
	var all []string
	for i := 0; i < nf; i++ {
		n := ns
		if i == grown {
			n++
		}
		for j := 0; j < n; j++ {
			all = append(all, fmt.Sprintf("S%d_%d", i, j))
		}
	}
	verifReach("grown-" + mode)
	verifObserve("journal", verifJoin(final.journal))
	verifAssert(verifJoin(final.journal) == verifJoin(all), "fix and re-run executes every statement of the final files once, in order")
	verifAssert(len(final.revs) == nf, "every file has a revision")
	revs := ""
	for i, r := range final.revs {
		n := ns
		if i == grown {
			n++
		}
		revs += fmt.Sprintf("%s:%d/%d,", r.version, r.applied, r.total)
		verifAssert(r.applied == n && r.total == n, "every file is recorded as fully applied with its current statement count")
	}
	verifObserve("revs", revs)
	// one more run: nothing to do, nothing executed
	err = env.apply(mode, false, 0, "")
	verifAssert(err == nil, "a further run finds nothing to do")
	again := env.snapshot()
	verifAssert(verifJoin(again.journal) == verifJoin(all), "a further run executes nothing")
}

func VerifHarness_C13_grow() { verifC13Grow() }

// C13 (dry-run): nothing changes.
func verifC13DryRun(maxF, maxS int, mode13 string) {
	nf := verifChoice("files", maxF) + 1
	ns := verifChoice("stmts", maxS) + 1
	mode := verifTxModes[verifChoice("txmode", 3)]
	history := verifChoice("history", 2) == 1
	baseline := ""
	if !history && verifChoice("baseline", 2) == 1 {
		baseline = "1"
	}
	// Region of the listed finding C13-dry-run-writes: a dry run on a database
	// without revision table (first run), where the table is created (and the
	// baseline row written).
	switch mode13 {
	case "main":
		if !history && verifKnown("C13-dry-run-writes") {
			return
		}
	case "witness":
		verifAssume(!history)
	}
	sh := verifShape{nf: nf, ns: ns, directive: make([]string, nf), failFile: -1, failStmt: -1}
	env := verifNewEnv()
	defer env.close()
	env.setDir(sh)
	if history {
		verifAssert(env.apply(mode, false, 1, "") == nil, "first file applied")
	}
	before := env.snapshot()
	err := env.apply(mode, true, 0, baseline)
	verifAssert(err == nil, "dry-run succeeds")
	after := env.snapshot()
	verifReach("dry-run")
	verifAssert(verifJoin(after.journal) == verifJoin(before.journal), "dry-run executes nothing")
	verifAssert(after.revTable == before.revTable, "dry-run does not create the revision table")
	verifAssert(len(after.revs) == len(before.revs), "dry-run writes no revision")
}

func VerifHarness_C13_fail()           { verifC13(2, 2, "main") }
func VerifHarness_C13_fail3()          { verifC13(3, 2, "main") }
func VerifHarness_C13_fail_witness()   { verifC13(2, 1, "witness") }
func VerifHarness_C13_dryrun()         { verifC13DryRun(2, 2, "main") }
func VerifHarness_C13_dryrun_witness() { verifC13DryRun(1, 1, "witness") }
