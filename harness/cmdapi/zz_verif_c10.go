package cmdapi

import (
	"fmt"
)

// C10: the process dies at any store event of `migrate apply`; running the
// same command again completes the migration, per transaction mode.
func verifC10(maxF, maxS int) { verifC10ck(maxF, maxS, false, false) }

// verifC10dir: every file may carry an atlas:txmode directive (none / file)
// under the global modes file and none; the guarantees then hold per file
// according to its effective mode.
func verifC10dir(maxF, maxS int) { verifC10ck(maxF, maxS, false, true) }

// verifC10ck: with checkpoints, one file (any position) may be tagged as a
// checkpoint: a first run on the empty database starts there and the files
// before it are never executed.
func verifC10ck(maxF, maxS int, checkpoints, directives bool) {
	nf := verifChoice("files", maxF) + 1
	ns := verifChoice("stmts", maxS) + 1
	mode := verifTxModes[verifChoice("txmode", 3)]
	sh := verifShape{nf: nf, ns: ns, directive: make([]string, nf), failFile: -1, failStmt: -1}
	eff := make([]string, nf) // effective transaction mode per file
	for i := range eff {
		eff[i] = mode
	}
	if directives {
		verifAssume(mode != txModeAll) // a directive is rejected under --tx-mode all
		for i := 0; i < nf; i++ {
			if d := []string{"", txModeNone, txModeFile}[verifChoice(fmt.Sprintf("directive%d", i), 3)]; d != "" {
				sh.directive[i] = d
				eff[i] = d
				verifReach("directive")
			}
		}
	}
	first := 0 // first file that is executed
	if checkpoints {
		sh.ckpt = verifChoice("checkpoint", nf+1)
		if sh.ckpt > 0 {
			first = sh.ckpt - 1
			verifReach("checkpoint")
		}
	}
	// number of store events of a complete run is at most 2 per statement + 4 per file
	crashAt := verifInt("crashAt", 0, nf*(2*ns+4))
	env := verifNewEnv()
	defer env.close()
	env.setDir(sh)
	env.setCrash(crashAt)
	err := env.apply(mode, false, 0, "")
	env.setCrash(-1)
	mid := env.snapshot()
	verifObserve("crashed", err != nil)
	verifObserve("mid", verifJoin(mid.journal))
	midrevs := ""
	for _, r := range mid.revs {
		midrevs += fmt.Sprintf("%s:%d/%d,", r.version, r.applied, r.total)
	}
	verifObserve("midrevs", midrevs)
	if err == nil {
		verifReach("no-crash") // crash index beyond the last event
	} else {
		verifReach("crashed-" + mode)
	}
	// the revision table never records a statement whose effect is not in the database
	count := func(journal []string, file int) int {
		n := 0
		for _, j := range journal {
			if len(j) > 1 && int(j[1]-'0') == file {
				n++
			}
		}
		return n
	}
	for _, r := range mid.revs {
		f := int(r.version[0] - '1')
		verifAssert(r.applied <= count(mid.journal, f), "the revision table never records a statement whose effect is not in the database")
	}
	for f := 0; f < nf; f++ {
		if eff[f] != txModeNone {
			c := count(mid.journal, f)
			verifAssert(c == 0 || c == ns, "in file and all modes a crash never leaves a file half applied")
		}
	}
	// run the same command again on the surviving database
	err = env.apply(mode, false, 0, "")
	verifAssert(err == nil, "re-running the command after a crash completes")
	final := env.snapshot()
	verifObserve("journal", verifJoin(final.journal))
	dups := 0
	for f := 0; f < nf; f++ {
		for s := 0; s < ns; s++ {
			id := fmt.Sprintf("S%d_%d", f, s)
			n := 0
			for _, j := range final.journal {
				if j == id {
					n++
				}
			}
			if f < first {
				verifAssert(n == 0, "files before the checkpoint are not executed on a first run")
				continue
			}
			verifAssert(n >= 1, "no statement is lost")
			if eff[f] != txModeNone {
				verifAssert(n == 1, "in file and all modes every statement's effect is present exactly once")
			} else {
				verifAssert(n <= 2, "in none mode a statement runs at most twice")
				if n == 2 {
					dups++
				}
			}
		}
	}
	verifAssert(dups <= 1, "in none mode at most the one statement in flight at the crash is executed twice")
	verifAssert(len(final.revs) == nf-first, "every executed file has a revision at the end")
	for _, r := range final.revs {
		verifAssert(r.applied == r.total && r.total == ns, "at the end every file is recorded as fully applied")
	}
}

func VerifHarness_C10_quick() { verifC10(2, 2) }

// verifC10Twice: the process dies twice - during the first run and again during
// the re-run - and a third run must still complete the migration (tx-mode none,
// one file of three statements: the progress recorded by a *resumed* run is what
// the next run has to accept).
func verifC10Twice() {
	nf, ns := 1, 3
	sh := verifShape{nf: nf, ns: ns, directive: make([]string, nf), failFile: -1, failStmt: -1}
	c1 := verifInt("crash1", 0, 2*ns+4)
	c2 := verifInt("crash2", 0, 2*ns+4)
	env := verifNewEnv()
	defer env.close()
	env.setDir(sh)
	env.setCrash(c1)
	err1 := env.apply(txModeNone, false, 0, "")
	env.setCrash(-1)
	env.setCrash(c2)
	err2 := env.apply(txModeNone, false, 0, "")
	env.setCrash(-1)
	if err1 != nil && err2 != nil {
		verifReach("crashed-twice")
	}
	err := env.apply(txModeNone, false, 0, "")
	verifAssert(err == nil, "after two crashes the same command still completes")
	final := env.snapshot()
	verifObserve("journal", verifJoin(final.journal))
	extra := 0
	for s := 0; s < ns; s++ {
		id := fmt.Sprintf("S0_%d", s)
		n := 0
		for _, j := range final.journal {
			if j == id {
				n++
			}
		}
		verifAssert(n >= 1, "no statement is lost")
		extra += n - 1
	}
	verifAssert(extra <= 2, "at most the statement in flight at each crash is executed again")
	verifAssert(len(final.revs) == 1 && final.revs[0].applied == ns && final.revs[0].total == ns, "the file ends fully applied")
}

func VerifHarness_C10_twice()    { verifC10Twice() }
func VerifHarness_C10_dir()      { verifC10dir(2, 2) }
func VerifHarness_C10_dir3()     { verifC10dir(3, 2) }
func VerifHarness_C10_ckpt()     { verifC10ck(2, 2, true, false) }
func VerifHarness_C10_ckpt3()    { verifC10ck(3, 2, true, false) }
func VerifHarness_C10_thorough() { verifC10(3, 2) }
