package cmdapi

// Native crash simulation for C10 replays: a database/sql driver wrapping the
// real SQLite driver that counts the store events the model counts
// (transaction begin, journal statement, revision write, commit) and "kills
// the process" at event N: that event and everything after it fails without
// effect and the open transaction is rolled back.

import (
	"context"
	"database/sql"
	"database/sql/driver"
	"errors"
	"net/url"
	"strings"
	"sync"

	"ariga.io/atlas/sql/sqlclient"
	"ariga.io/atlas/sql/sqlite"
	sqlite3 "github.com/mattn/go-sqlite3"
)

var verifCrashCtl struct {
	sync.Mutex
	at, n int
	dead  bool
	// armed: the revision-table migration (ent runs it in its own transaction at
	// the start of every command) is over; events before that are not counted, as
	// in the model.
	armed bool
}

var errVerifNativeCrash = errors.New("verif: simulated process crash")

// verifEvent counts one store event and reports whether the process is dead.
func verifEvent(isEvent bool) bool {
	c := &verifCrashCtl
	c.Lock()
	defer c.Unlock()
	if c.dead {
		return true
	}
	if !isEvent || !c.armed {
		return false
	}
	if c.at >= 0 && c.n == c.at {
		c.dead = true
		return true
	}
	c.n++
	return false
}

func verifIsStoreStmt(q string) bool {
	u := strings.ToUpper(strings.TrimSpace(q))
	switch {
	case strings.Contains(q, "journal") && strings.HasPrefix(u, "INSERT"), strings.Contains(q, "nosuch"):
		return true
	case strings.Contains(q, "atlas_schema_revisions") && strings.HasPrefix(u, "INSERT"):
		return true
	}
	return false
}

type verifCrashDriver struct{ inner driver.Driver }

func (d *verifCrashDriver) Open(name string) (driver.Conn, error) {
	c, err := d.inner.Open(name)
	if err != nil {
		return nil, err
	}
	return &verifCrashConn{c.(*sqlite3.SQLiteConn)}, nil
}

type verifCrashConn struct{ c *sqlite3.SQLiteConn }

func (c *verifCrashConn) Prepare(q string) (driver.Stmt, error) {
	s, err := c.c.Prepare(q)
	if err != nil {
		return nil, err
	}
	return &verifCrashStmt{s, q, c}, nil
}
func (c *verifCrashConn) Close() error { return c.c.Close() }
func (c *verifCrashConn) Begin() (driver.Tx, error) {
	return c.BeginTx(context.Background(), driver.TxOptions{})
}
func (c *verifCrashConn) BeginTx(ctx context.Context, o driver.TxOptions) (driver.Tx, error) {
	if verifEvent(true) {
		return nil, errVerifNativeCrash
	}
	tx, err := c.c.BeginTx(ctx, o)
	if err != nil {
		return nil, err
	}
	return &verifCrashTx{tx}, nil
}
func (c *verifCrashConn) ExecContext(ctx context.Context, q string, args []driver.NamedValue) (driver.Result, error) {
	if verifEvent(verifIsStoreStmt(q)) {
		return nil, errVerifNativeCrash
	}
	return c.c.ExecContext(ctx, q, args)
}
func verifArm(q string) {
	u := strings.ToUpper(strings.TrimSpace(q))
	if strings.HasPrefix(u, "SELECT") && strings.Contains(q, "atlas_schema_revisions") && !strings.Contains(q, "sqlite_master") && !strings.Contains(u, "PRAGMA") {
		verifCrashCtl.Lock()
		verifCrashCtl.armed = true
		verifCrashCtl.Unlock()
	}
}

func (c *verifCrashConn) QueryContext(ctx context.Context, q string, args []driver.NamedValue) (driver.Rows, error) {
	verifArm(q)
	// ent writes revisions with INSERT ... RETURNING, i.e. through Query
	if verifEvent(verifIsStoreStmt(q)) {
		return nil, errVerifNativeCrash
	}
	return c.c.QueryContext(ctx, q, args)
}

type verifCrashStmt struct {
	driver.Stmt
	q string
	c *verifCrashConn
}

func (s *verifCrashStmt) Exec(args []driver.Value) (driver.Result, error) {
	if verifEvent(verifIsStoreStmt(s.q)) {
		return nil, errVerifNativeCrash
	}
	return s.Stmt.Exec(args)
}

func (s *verifCrashStmt) Query(args []driver.Value) (driver.Rows, error) {
	verifArm(s.q)
	if verifEvent(verifIsStoreStmt(s.q)) {
		return nil, errVerifNativeCrash
	}
	return s.Stmt.Query(args)
}

type verifCrashTx struct{ tx driver.Tx }

func (t *verifCrashTx) Commit() error {
	if verifEvent(true) {
		t.tx.Rollback() // the database rolls back what a dead process left open
		return errVerifNativeCrash
	}
	return t.tx.Commit()
}
func (t *verifCrashTx) Rollback() error { return t.tx.Rollback() }

var verifCrashOnce sync.Once

// verifRegisterCrashDriver registers the "verifcrash" URL scheme, which opens
// the same SQLite file through the event-counting driver.
func verifRegisterCrashDriver() {
	verifCrashOnce.Do(func() {
		sql.Register("verifcrash-sqlite3", &verifCrashDriver{&sqlite3.SQLiteDriver{}})
		sqlclient.Register(
			"verifcrash",
			sqlclient.OpenerFunc(func(_ context.Context, u *url.URL) (*sqlclient.Client, error) {
				dsn := "file:" + u.Path + "?" + u.RawQuery
				db, err := sql.Open("verifcrash-sqlite3", dsn)
				if err != nil {
					return nil, err
				}
				drv, err := sqlite.Open(db)
				if err != nil {
					return nil, err
				}
				return &sqlclient.Client{Name: sqlite.DriverName, DB: db, URL: &sqlclient.URL{URL: u, DSN: dsn, Schema: "main"}, Driver: drv}, nil
			}),
			sqlclient.RegisterDriverOpener(sqlite.Open),
			sqlclient.RegisterTxOpener(sqlite.OpenTx),
		)
	})
}
