package cmdapi

import (
	"context"
	"database/sql"
	"fmt"
	"os"
	"path/filepath"
	"sort"
	"strings"

	"ariga.io/atlas/sql/migrate"
	"ariga.io/atlas/sql/schema"
	"ariga.io/atlas/sql/sqlclient"
	"ariga.io/atlas/sql/sqlite"
)

// C13 (schema apply): applyChanges, the function behind `schema apply`, is
// all-or-nothing in its default transaction mode: when a statement of the plan
// fails, nothing of the plan stays in the database - whatever the number of
// changes and however many statements each change plans to. In none mode the
// successful prefix stays.
//
// Changes are real schema changes planned by the real SQLite planner: change i
// creates table t<i> with ns-1 indexes (ns statements). A failure is natural:
// the failing statement is an index on a column that does not exist.
//
// Engine side: the client's driver is the model driver (its ApplyChanges plans
// with the real planner and executes on the transactional model store, Tx /
// Commit / Rollback are the substitutions of C13). Native side: a real SQLite
// file through the real sqlclient.

func verifApplyChangeSet(nc, ns, failChange, failStmt int) []schema.Change {
	sch := schema.New("main")
	var out []schema.Change
	for i := 0; i < nc; i++ {
		t := schema.NewTable(fmt.Sprintf("t%d", i)).SetSchema(sch)
		id := schema.NewIntColumn("id", "integer")
		t.AddColumns(id)
		for j := 1; j < ns; j++ {
			col := id
			if i == failChange && j == failStmt {
				col = schema.NewIntColumn("nosuch", "integer") // CREATE INDEX on a missing column fails
			}
			t.AddIndexes(schema.NewIndex(fmt.Sprintf("i%d_%d", i, j)).AddColumns(col))
		}
		out = append(out, &schema.AddTable{T: t})
	}
	return out
}

// ApplyChanges of the model driver: plan with the real SQLite planner, execute
// the statements in order (the loop of sqlx.ApplyChanges).
func (d *vDrv) ApplyChanges(ctx context.Context, changes []schema.Change, opts ...migrate.PlanOption) error {
	plan, err := sqlite.DefaultPlan.PlanChanges(ctx, "apply", changes, opts...)
	if err != nil {
		return err
	}
	for _, c := range plan.Changes {
		if _, err := d.ExecContext(ctx, c.Cmd, c.Args...); err != nil {
			return err
		}
	}
	return nil
}

// verifObjects lists what exists: names of created tables and indexes, sorted.
func verifObjectsOfJournal(journal []string) string {
	var names []string
	for _, q := range journal {
		for _, kw := range []string{"CREATE TABLE `", "CREATE INDEX `"} {
			if strings.HasPrefix(q, kw) {
				rest := q[len(kw):]
				names = append(names, rest[:strings.Index(rest, "`")])
			}
		}
	}
	sort.Strings(names)
	return strings.Join(names, ",")
}

func verifC13SchemaApply(maxC, maxS int) {
	nc := verifChoice("changes", maxC) + 1
	ns := verifChoice("stmts", maxS) + 1
	txMode := []string{txModeFile, txModeNone}[verifChoice("txmode", 2)]
	failChange, failStmt := -1, -1
	if ns > 1 && verifChoice("fails", 2) == 1 {
		failChange = verifChoice("failChange", nc)
		failStmt = verifChoice("failStmt", ns-1) + 1
	}
	changes := verifApplyChangeSet(nc, ns, failChange, failStmt)
	ctx := context.Background()
	var client *sqlclient.Client
	var objects func() string
	if verifSymbolic() {
		w := &vWorld{failAt: -1, crashAt: -1}
		ctx = context.WithValue(ctx, verifWorldKey{}, w)
		client = &sqlclient.Client{Name: "sqlite3", URL: &sqlclient.URL{Schema: "main"}, Driver: &vDrv{w: w}}
		objects = func() string {
			verifAssert(w.tx == nil, "no transaction is left open")
			return verifObjectsOfJournal(w.db.journal)
		}
	} else {
		root, err := os.MkdirTemp("", "verif-c13s-")
		if err != nil {
			panic(err)
		}
		defer os.RemoveAll(root)
		path := filepath.Join(root, "db.sqlite")
		client, err = sqlclient.Open(ctx, "sqlite://"+path+"?_fk=1")
		if err != nil {
			panic(err)
		}
		defer client.Close()
		objects = func() string {
			db, err := sql.Open("sqlite3", "file:"+path)
			if err != nil {
				panic(err)
			}
			defer db.Close()
			rows, err := db.Query("SELECT name FROM sqlite_master WHERE name NOT LIKE 'sqlite_%' ORDER BY name")
			if err != nil {
				panic(err)
			}
			defer rows.Close()
			var names []string
			for rows.Next() {
				var n string
				rows.Scan(&n)
				names = append(names, n)
			}
			sort.Strings(names)
			return strings.Join(names, ",")
		}
	}
	// what a complete run creates, and the prefix before the failing statement
	var all, prefix []string
	failed := false
	for i := 0; i < nc; i++ {
		for j := 0; j < ns; j++ {
			name := fmt.Sprintf("t%d", i)
			if j > 0 {
				name = fmt.Sprintf("i%d_%d", i, j)
			}
			if i == failChange && j == failStmt {
				failed = true
			}
			all = append(all, name)
			if !failed {
				prefix = append(prefix, name)
			}
		}
	}
	sort.Strings(all)
	sort.Strings(prefix)
	err := applyChanges(ctx, client, changes, txMode)
	got := objects()
	verifObserve("objects", got)
	switch {
	case failChange < 0:
		verifReach("applied")
		verifAssert(err == nil, "a plan without a failing statement is applied")
		verifAssert(got == strings.Join(all, ","), "every planned object exists afterwards")
	case txMode == txModeNone:
		verifReach("failed-none")
		verifAssert(err != nil, "the failure is reported")
		verifAssert(got == strings.Join(prefix, ","), "in none mode exactly the successful prefix stays")
	default:
		verifReach("failed-tx")
		verifAssert(err != nil, "the failure is reported")
		verifAssert(got == "", "schema apply is all-or-nothing in its default mode: nothing of a failed plan stays")
	}
}

func VerifHarness_C13_schema_apply()  { verifC13SchemaApply(2, 3) }
func VerifHarness_C13_schema_apply3() { verifC13SchemaApply(3, 3) }
