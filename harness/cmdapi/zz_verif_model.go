package cmdapi

// Model of the target database for `migrate apply` (engine side of C10/C13):
// a journal of executed statement ids, the revision table, one optional open
// transaction holding a working copy, fault and crash injection.

import (
	"context"
	"database/sql"
	"errors"
	"net/url"
	"strings"
	"time"

	cmdmigrate "ariga.io/atlas/cmd/atlas/internal/migrate"
	"ariga.io/atlas/cmd/atlas/internal/cmdlog"
	"ariga.io/atlas/sql/migrate"
	"ariga.io/atlas/sql/schema"
	"ariga.io/atlas/sql/sqlclient"
	"github.com/spf13/cobra"
)

type vState struct {
	journal  []string
	revs     []*migrate.Revision
	revTable bool
}

func (s vState) clone() vState {
	c := vState{revTable: s.revTable}
	c.journal = append([]string(nil), s.journal...)
	for _, r := range s.revs {
		cr := *r
		cr.PartialHashes = append([]string(nil), r.PartialHashes...)
		c.revs = append(c.revs, &cr)
	}
	return c
}

type vWorld struct {
	dir     *migrate.MemDir
	db      vState  // committed
	tx      *vState // working copy of the open transaction, if any
	ops     int
	failAt  int // operation index whose statement fails (-1 none)
	crashAt int // operation index at which the process dies (-1 none)
	crashed bool
	commits int
	rollbacks int
}

var errVerifStmt = errors.New("verif: statement failed")
var errVerifCrash = errors.New("verif: process crashed")

type verifWorldKey struct{}

func verifWorldOf(ctx context.Context) *vWorld { return ctx.Value(verifWorldKey{}).(*vWorld) }

// step numbers a store operation and reports a crash at/after crashAt.
func (w *vWorld) step() (op int, dead bool) {
	op = w.ops
	w.ops++
	if w.crashed || op == w.crashAt {
		if !w.crashed {
			w.crashed = true
			w.tx = nil // the database rolls the open transaction back
		}
		return op, true
	}
	return op, false
}

func (w *vWorld) state(inTx bool) *vState {
	if inTx && w.tx != nil {
		return w.tx
	}
	return &w.db
}

// ---- driver ----

type vDrv struct {
	migrate.Driver
	w    *vWorld
	inTx bool
}

func (d *vDrv) ExecContext(_ context.Context, q string, _ ...any) (sql.Result, error) {
	op, dead := d.w.step()
	if dead {
		return nil, errVerifCrash
	}
	if op == d.w.failAt || strings.Contains(q, "nosuch") {
		return nil, errVerifStmt
	}
	st := d.w.state(d.inTx)
	st.journal = append(st.journal, verifStmtID(q))
	return nil, nil
}

func (d *vDrv) CheckClean(context.Context, *migrate.TableIdent) error { return nil }

func (d *vDrv) Lock(context.Context, string, time.Duration) (schema.UnlockFunc, error) {
	return func() error { return nil }, nil
}

// ---- revisions ----

type vRevs struct {
	w    *vWorld
	inTx bool
}

func (r *vRevs) Ident() *migrate.TableIdent { return &migrate.TableIdent{Name: "atlas_schema_revisions"} }

func (r *vRevs) ReadRevisions(context.Context) ([]*migrate.Revision, error) {
	return r.w.state(r.inTx).clone().revs, nil
}

func (r *vRevs) ReadRevision(_ context.Context, v string) (*migrate.Revision, error) {
	for _, rev := range r.w.state(r.inTx).clone().revs {
		if rev.Version == v {
			return rev, nil
		}
	}
	return nil, migrate.ErrRevisionNotExist
}

func (r *vRevs) WriteRevision(_ context.Context, rev *migrate.Revision) error {
	_, dead := r.w.step()
	if dead {
		return errVerifCrash
	}
	st := r.w.state(r.inTx)
	c := *rev
	c.PartialHashes = append([]string(nil), rev.PartialHashes...)
	for i, o := range st.revs {
		if o.Version == rev.Version {
			st.revs[i] = &c
			return nil
		}
	}
	st.revs = append(st.revs, &c)
	return nil
}

func (r *vRevs) DeleteRevision(_ context.Context, v string) error {
	st := r.w.state(r.inTx)
	for i, o := range st.revs {
		if o.Version == v {
			st.revs = append(st.revs[:i], st.revs[i+1:]...)
		}
	}
	return nil
}

func (r *vRevs) CurrentRevision(context.Context) (*migrate.Revision, error) {
	revs := r.w.state(r.inTx).revs
	if len(revs) == 0 {
		return nil, migrate.ErrRevisionNotExist
	}
	return revs[len(revs)-1], nil
}

// Migrate creates the revision table when missing (not a counted store event:
// a crash before the first event is equivalent).
func (r *vRevs) Migrate(context.Context) error {
	if r.w.crashed {
		return errVerifCrash
	}
	r.w.state(r.inTx).revTable = true
	return nil
}

func (r *vRevs) ID(context.Context, string) (string, error) { return "verif", nil }

// ---- function substitutions (engine side) ----

func verifStubDirURL(ctx context.Context, _ *url.URL, _ bool) (migrate.Dir, error) {
	return verifWorldOf(ctx).dir, nil
}

func verifStubOpenClient(_ *Env, ctx context.Context, u string) (*sqlclient.Client, error) {
	w := verifWorldOf(ctx)
	pu, _ := url.Parse(u)
	return &sqlclient.Client{Name: "sqlite3", URL: &sqlclient.URL{URL: pu, Schema: "main"}, Driver: &vDrv{w: w}}, nil
}

func verifStubClose(*sqlclient.Client) error { return nil }

func verifStubTx(c *sqlclient.Client, _ context.Context, _ *sql.TxOptions) (*sqlclient.TxClient, error) {
	w := c.Driver.(*vDrv).w
	_, dead := w.step()
	if dead {
		return nil, errVerifCrash
	}
	if w.tx != nil {
		return nil, errors.New("verif: nested transaction")
	}
	work := w.db.clone()
	w.tx = &work
	ic := *c
	ic.Driver = &vDrv{w: w, inTx: true}
	return &sqlclient.TxClient{Client: &ic}, nil
}

func verifStubCommit(c *sqlclient.TxClient) error {
	w := c.Client.Driver.(*vDrv).w
	_, dead := w.step()
	if dead {
		return errVerifCrash
	}
	if w.tx == nil {
		return errors.New("verif: commit without transaction")
	}
	w.db = *w.tx
	w.tx = nil
	w.commits++
	return nil
}

func verifStubRollback(c *sqlclient.TxClient) error {
	w := c.Client.Driver.(*vDrv).w
	w.tx = nil
	w.rollbacks++
	return nil
}

func verifStubSchemaClarity(*cobra.Command, *sqlclient.Client, string) error { return nil }

func verifStubEntRevisions(_ context.Context, c *sqlclient.Client, _ string) (cmdmigrate.RevisionReadWriter, error) {
	d := c.Driver.(*vDrv)
	return &vRevs{w: d.w, inTx: d.inTx}, nil
}

func verifStubNewMigrateApply(context.Context, *sqlclient.Client, *url.URL) *cmdlog.MigrateApply {
	return &cmdlog.MigrateApply{}
}

func verifStubLog(*cmdlog.MigrateApply, migrate.LogEntry) {}

func verifStubReportInit(*MigrateReport, *sqlclient.Client, *cmdlog.MigrateApply, cmdmigrate.RevisionReadWriter) {
}
func verifStubReportTargetID(*MigrateReport, context.Context) error { return nil }
func verifStubReportPlanError(*MigrateReport, *cobra.Command, migrateApplyFlags, string) {}
func verifStubReportDone(*MigrateReport, *cobra.Command, migrateApplyFlags) error { return nil }
func verifStubCheckErr(any)                                                     {}
func verifStubOperatorVersion() string                                          { return "verif" }
func verifStubPrintChecksumError(*cobra.Command, error)                         {}

// verifStmtSQL is the SQL text of statement id: an insert into the journal
// table (or into a missing table for the statement that must fail).
func verifStmtSQL(id string, fail bool) string {
	if fail {
		return "INSERT INTO nosuch (id) VALUES ('" + id + "')"
	}
	return "INSERT INTO journal (id) VALUES ('" + id + "')"
}

func verifStmtID(q string) string {
	i := strings.IndexByte(q, '\'')
	j := strings.LastIndexByte(q, '\'')
	if i < 0 || j <= i {
		return q
	}
	return q[i+1 : j]
}
