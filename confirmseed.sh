#!/bin/bash
# usage: confirmseed.sh <ID> <seeddir> <demo-relpath>
# Confirms a seeded change in a scratch worktree of /repo: demo passes on HEAD, fails with the patch,
# the tree builds and the existing tests of both modules pass with the patch. Removes the worktree.
id=$1; sd=$2; demo=$3
export GOFLAGS=-mod=mod GOPROXY=off GOSUMDB=off
wt=/tmp/confirm_$id
git -C /repo worktree remove --force $wt 2>/dev/null
git -C /repo worktree add --detach $wt HEAD >/dev/null 2>&1 || exit 3
cp $sd/demo_test.go $wt/$demo
pkg=./$(dirname $demo)/
mod=$wt; case $demo in cmd/atlas/*) mod=$wt/cmd/atlas; pkg=./${pkg#./cmd/atlas/};; esac
run=$(grep -o 'func Test[A-Za-z0-9_]*' $sd/demo_test.go | sed 's/func //' | paste -sd'|')
tl() { if [ "$1" = "$wt" ]; then echo GOTOOLCHAIN=local; else echo -u GOSUMDB; fi; }
(cd $mod && env $(tl $mod) go test -vet=off -count=1 -run "^($run)\$" $pkg >/tmp/confirm_$id.head.log 2>&1); head_rc=$?
git -C $wt apply $sd/patch.diff || { echo "$id: patch does not apply"; exit 3; }
(cd $mod && env $(tl $mod) go test -vet=off -count=1 -run "^($run)\$" $pkg >/tmp/confirm_$id.patched.log 2>&1); pat_rc=$?
rm $wt/$demo
# the suites of concurrent confirmations interfere (shared lock file in TestDriver_LockAcquired): serialise them
exec 9>/tmp/confirmseed.lock; flock 9
(cd $wt && GOTOOLCHAIN=local go build ./... && GOTOOLCHAIN=local go test -vet=off -count=1 -timeout 25m ./... >/tmp/confirm_$id.root.log 2>&1); root_rc=$?
(cd $wt/cmd/atlas && env -u GOSUMDB go build ./... && GIT_CONFIG_GLOBAL=/dev/null env -u GOSUMDB go test -vet=off -count=1 -timeout 25m ./... >/tmp/confirm_$id.cmd.log 2>&1); cmd_rc=$?
# time-of-day flakes (TestFormatters, TestMigrate_New, TestPlanner_WritePlan cross a second boundary): re-run failed packages
retry() { # dir log envprefix
  local pk; pk=$(grep -E "^FAIL\s+ariga" $2 | awk '{print $2}' | sed "s#^ariga.io/atlas/cmd/atlas#.#; s#^ariga.io/atlas#.#" | sort -u)
  [ -z "$pk" ] && return 1
  for k in 1 2 3; do (cd $1 && env $3 GIT_CONFIG_GLOBAL=/dev/null go test -vet=off -count=1 $pk >>$2.retry 2>&1) && return 0; done; return 1
}
[ $root_rc != 0 ] && retry $wt /tmp/confirm_$id.root.log GOTOOLCHAIN=local && root_rc=0
[ $cmd_rc != 0 ] && retry $wt/cmd/atlas /tmp/confirm_$id.cmd.log "-u GOSUMDB" && cmd_rc=0
flock -u 9
git -C /repo worktree remove --force $wt
echo "confirm $id: demo_on_head=$head_rc (want 0) demo_with_patch=$pat_rc (want 1) suite_root=$root_rc suite_cmd=$cmd_rc (want 0 0)"
