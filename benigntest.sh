#!/bin/bash
# usage: benigntest.sh <patch> <ID>...   Runs the quick checks of the given properties against a scratch worktree
# of /repo with a behaviour-preserving change applied. Every check must exit 0 (anything else is a false alarm
# or an engine gap).
patch=$1; shift
wt=/tmp/benignrepo_$$
git -C /repo worktree add --detach $wt HEAD >/dev/null 2>&1 || exit 3
git -C $wt apply "$patch" || { git -C /repo worktree remove --force $wt; echo "patch does not apply"; exit 3; }
out=/tmp/benignout_$$; mkdir -p $out
for id in "$@"; do
  VERIF_REPO=$wt VERIF_OUT=$out python3 /verif/check.py $id --tier quick 2>&1 | grep -v "^KNOWN-FINDING" | cut -c1-300 | tail -3
done
git -C /repo worktree remove --force $wt; rm -rf $out
