#!/bin/bash
# like run2.sh for harness dirs that need the sqlite export shim (cmd/atlas module)
export GOFLAGS=-mod=mod GOPROXY=off
unset GOTOOLCHAIN GOSUMDB
d=$1; pkg=$2; h=$3; shift 3
files=""
for f in /verif/harness/$d/*.go; do case $f in *_test.go) ;; *) files="$files -file $f";; esac; done
/verif/bin/symgo -dir /repo/cmd/atlas -pkg $pkg -harness $h $files -xfile ariga.io/atlas/sql/sqlite=/verif/harness/x_sqlite/zz_verif_export_dev.go "$@" 2>&1 | grep -v '^WARNING'
