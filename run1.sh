#!/bin/bash
# usage: run1.sh <pkgdirname> <pkgpath> <Harness> [extra flags]
export GOFLAGS=-mod=mod GOPROXY=off GOSUMDB=off GOTOOLCHAIN=local
d=$1; pkg=$2; h=$3; shift 3
files=""
for f in /verif/harness/$d/*.go; do case $f in *_test.go) ;; *) files="$files -file $f";; esac; done
case $d in mysql|postgres|sqlite) files="$files -xfile ariga.io/atlas/schemahcl=/verif/harness/x_schemahcl/zz_verif_export.go";; esac
/verif/bin/symgo -pkg $pkg -harness $h $files "$@" 2>&1 | grep -v '^WARNING'
